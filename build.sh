#!/bin/bash
# Rebuilds the harness binaries against /repo's current working tree (hooks on: -tags verif).
# usage: build.sh [plain|race|all]
set -e
cd /verif/harness
. /verif/env.sh
cp /repo/go.sum go.sum.repo 2>/dev/null || true
# go.sum: union of the repo's sums and ours (porcupine), so that -mod=mod never needs the network
if [ -f go.sum.extra ]; then cat go.sum.repo go.sum.extra | sort -u > go.sum; else cp go.sum.repo go.sum; fi
rm -f go.sum.repo
what=${1:-all}
mkdir -p /verif/bin
if [ "$what" = plain ] || [ "$what" = all ]; then
  go build -tags verif -o /verif/bin/vcheck ./cmd/vcheck
fi
if [ "$what" = race ] || [ "$what" = all ]; then
  go build -tags verif -race -o /verif/bin/vcheck-race ./cmd/vcheck
fi
