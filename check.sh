#!/bin/bash
# Entry point of every MANIFEST command: check.sh <ID> <quick|thorough>
# Rebuilds the harness from /repo's current tree, then runs the parent.
id=$1; tier=${2:-quick}
cd /verif
. /verif/env.sh
out=$(/verif/build.sh all 2>&1)
if [ $? -ne 0 ]; then
  echo "BUILD FAILED (harness or /repo does not compile with -tags verif):"
  echo "$out"
  exit 2
fi
export VERIF_TIER=$tier
exec /verif/bin/vcheck run "$id" "$tier"
