#!/bin/bash
# coverage.sh [tier] [ids...] — exploratory: which statements of jhalter/mobius do the monitors' workloads reach?
# Builds coverage-instrumented copies of the two worker binaries (go build -cover) into a scratch directory, runs the
# checks with a scratch evidence directory, and prints per-function coverage of hotline/ and internal/mobius.
# Nothing registered in MANIFEST.json depends on this script.
tier=${1:-quick}; shift
ids=${@:-C01 C02 C03 C04 C05 C06 C07 C08 C09 C10 C11 C12 C13 C14 C15 C16 C17 C18 C19 C20}
. /verif/env.sh
out=/tmp/vcover; rm -rf $out; mkdir -p $out/bin $out/cov $out/ev
/verif/build.sh plain >/dev/null || exit 2   # refreshes harness/go.sum
cd /verif/harness
# -coverpkg does not reach a module pulled in through a replace directive; in workspace mode both modules are main
# modules and plain -cover instruments them
printf 'go 1.23\n\nuse (\n\t/verif/harness\n\t/repo\n)\n' > $out/go.work
export GOWORK=$out/go.work GOFLAGS=
go build -tags verif -cover -covermode=atomic -o $out/bin/vcheck ./cmd/vcheck || exit 2
go build -tags verif -race -cover -covermode=atomic -o $out/bin/vcheck-race ./cmd/vcheck || exit 2
export GOCOVERDIR=$out/cov VERIF_EVIDENCE_DIR=$out/ev VERIF_BIN_DIR=$out/bin
for id in $ids; do
  $out/bin/vcheck run $id $tier 2>&1 | tail -1
done
go tool covdata textfmt -i=$out/cov -pkg=github.com/jhalter/mobius/hotline,github.com/jhalter/mobius/internal/mobius -o $out/profile.txt
cd /repo && go tool cover -func=$out/profile.txt > $out/func.txt
tail -1 $out/func.txt
echo "per-function report: $out/func.txt"
