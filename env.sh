# sourced by every script: offline Go environment
export GOFLAGS=-mod=mod GOPROXY=off GOSUMDB=off GOTOOLCHAIN=local TZ=UTC
export CARGO_NET_OFFLINE=true PIP_NO_INDEX=1
