package main

import (
	"fmt"
	"time"

	"verifharness/internal/fixture"
	"verifharness/internal/refclient"
	rc "verifharness/internal/refcodec"
)

func main() {
	srv, err := fixture.New(fixture.Options{Agreement: "AGREE", Board: "board text"})
	if err != nil {
		panic(err)
	}
	defer srv.Close()
	t0 := time.Now()
	a, err := refclient.LoginAs(srv, "10.0.0.1:1000", "admin", "", "Admin")
	fmt.Println("login admin", err, time.Since(t0))
	b, err := refclient.LoginAs(srv, "10.0.0.2:1000", "guest", "", "Bob")
	fmt.Println("login guest", err)
	fmt.Println("quiesce", srv.Quiesce(5*time.Second))
	for _, t := range a.Drain() {
		fmt.Println("A <-", t)
	}
	for _, t := range b.Drain() {
		fmt.Println("B <-", t)
	}
	r, ok := a.Call(300)
	fmt.Println("userlist", ok, r)
	r, ok = b.Call(101)
	fmt.Println("board", ok, r)
	a.Send(105, rc.FS(101, "hello"))
	fmt.Println("quiesce", srv.Quiesce(5*time.Second))
	for _, t := range b.Drain() {
		fmt.Println("B <-", t)
	}
	fmt.Println("hangup", b.Hangup(), srv.Quiesce(5*time.Second))
	for _, t := range a.Drain() {
		fmt.Println("A <-", t)
	}
}
