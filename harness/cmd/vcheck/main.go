// vcheck is both the parent (orchestrator) and the worker of every property check.
//
//	vcheck run <ID> <quick|thorough>     parent: plan batches, spawn workers, merge, evidence, verdict
//	vcheck worker <batch.json> <out>     worker: run one batch in-process against the real code
//	vcheck replay <replay.json>          re-execute the case of a recorded violation
package main

import (
	"fmt"
	"os"
	"runtime"
	"strconv"

	"verifharness/internal/core"
	_ "verifharness/internal/props"
	"verifharness/internal/props/c03"
	"verifharness/internal/props/c07"
	"verifharness/internal/props/c20"
)

// The crash child (C20) must issue every file system call from the main OS thread, because strace follows only that
// thread: lock the main goroutine to it before anything else runs.
func init() {
	if len(os.Args) > 1 && os.Args[1] == "crashchild" {
		runtime.LockOSThread()
	}
}

func main() {
	if len(os.Args) < 2 {
		usage()
	}
	switch os.Args[1] {
	case "run":
		if len(os.Args) != 4 {
			usage()
		}
		os.Exit(core.RunParent(os.Args[2], os.Args[3]))
	case "worker":
		if len(os.Args) != 4 {
			usage()
		}
		os.Exit(core.RunWorker(os.Args[2], os.Args[3]))
	case "replay":
		if len(os.Args) != 3 {
			usage()
		}
		os.Exit(core.RunReplay(os.Args[2]))
	case "c07audit":
		if len(os.Args) != 5 {
			usage()
		}
		n, _ := strconv.Atoi(os.Args[2])
		seed, _ := strconv.ParseInt(os.Args[3], 10, 64)
		os.Exit(c07.AuditChild(n, seed, os.Args[4]))
	case "c03server":
		if len(os.Args) != 3 {
			usage()
		}
		os.Exit(c03.ServerMain(os.Args[2]))
	case "crashchild":
		if len(os.Args) != 5 {
			usage()
		}
		if os.Args[2] == "run" {
			os.Exit(c20.ChildRun(os.Args[3], os.Args[4]))
		}
		os.Exit(c20.ChildLoad(os.Args[3], os.Args[4]))
	case "list":
		for _, id := range core.IDs() {
			fmt.Println(id)
		}
	default:
		usage()
	}
}

func usage() {
	fmt.Fprintln(os.Stderr, "usage: vcheck run <ID> <quick|thorough> | worker <batch> <out> | replay <file> | list")
	os.Exit(2)
}
