module verifharness

go 1.23

require (
	github.com/anishathalye/porcupine v1.3.0
	github.com/jhalter/mobius v0.0.0
	golang.org/x/crypto v0.29.0
	golang.org/x/text v0.20.0
	gopkg.in/yaml.v3 v3.0.1
)

require (
	github.com/davecgh/go-spew v1.1.1 // indirect
	github.com/gabriel-vasile/mimetype v1.4.7 // indirect
	github.com/go-playground/locales v0.14.1 // indirect
	github.com/go-playground/universal-translator v0.18.1 // indirect
	github.com/go-playground/validator/v10 v10.23.0 // indirect
	github.com/leodido/go-urn v1.4.0 // indirect
	github.com/pmezard/go-difflib v1.0.0 // indirect
	github.com/stretchr/objx v0.5.2 // indirect
	github.com/stretchr/testify v1.10.0 // indirect
	golang.org/x/net v0.31.0 // indirect
	golang.org/x/sys v0.27.0 // indirect
	golang.org/x/time v0.8.0 // indirect
	gopkg.in/natefinch/lumberjack.v2 v2.2.1 // indirect
)

replace github.com/jhalter/mobius => /repo
