// Package core holds the verdict discipline shared by all property checks: results, batches,
// the parent/worker split, evidence files, replay files and known findings.
package core

import (
	"bufio"
	"crypto/sha256"
	"encoding/hex"
	"encoding/json"
	"fmt"
	"os"
	"os/exec"
	"path/filepath"
	"runtime/debug"
	"sort"
	"strconv"
	"strings"
	"sync"
	"time"
)

const VerifDir = "/verif"

type Verdict string

const (
	Held         Verdict = "held"
	Violated     Verdict = "violated"
	Inconclusive Verdict = "inconclusive"
)

// Result is what a worker reports for one explored case.
type Result struct {
	Case    string         `json:"case"`             // unique id of the case inside the run
	Class   string         `json:"class,omitempty"`  // class used to count distinct non-trivial cases ("" = trivial)
	Verdict Verdict        `json:"verdict"`          // held / violated / inconclusive
	Key     string         `json:"key,omitempty"`    // stable signature of a violation (matched against known_findings.json)
	Msg     string         `json:"msg,omitempty"`    // what was expected / observed
	Replay  any            `json:"replay,omitempty"` // concrete input needed to re-execute the case
	Obs     map[string]int `json:"obs,omitempty"`    // observation counters (events seen by the monitors)
	Sample  any            `json:"sample,omitempty"` // a written-out description of the case (evidence samples)
	Begin   bool           `json:"begin,omitempty"`  // marker written before the case touches the code under test
	Note    string         `json:"note,omitempty"`   // free text (e.g. race report summaries)
}

// Batch is a unit of work executed by one worker process.
type Batch struct {
	Prop    string          `json:"prop"`
	Name    string          `json:"name"`
	Tier    string          `json:"tier"`
	Seed    int64           `json:"seed"`
	Race    bool            `json:"race"`    // run in the -race build of the worker
	Args    json.RawMessage `json:"args"`    // property-specific parameters
	Timeout int             `json:"timeout"` // wall-clock watchdog in seconds (firing = inconclusive)
	Env     []string        `json:"env,omitempty"`
	// CrashIsViolation: a worker that dies abnormally (Go fatal error, exit != 0) is a violation attributed
	// to its last BEGIN marker (used where process death is what the property forbids).
	CrashIsViolation bool `json:"crash_is_violation,omitempty"`
}

// Prop is implemented by every property package.
type Prop interface {
	ID() string
	Level() string // evidence level
	Rule() string  // how cases are generated and what makes one distinct/non-trivial
	Plan(tier string, seed int64) []Batch
	Run(b Batch, em *Emitter)
	// Replay re-executes one case from the replay payload of a violation.
	Replay(payload json.RawMessage, em *Emitter)
}

var registry = map[string]Prop{}

func Register(p Prop)    { registry[p.ID()] = p }
func Get(id string) Prop { return registry[id] }
func IDs() []string {
	var ids []string
	for id := range registry {
		ids = append(ids, id)
	}
	sort.Strings(ids)
	return ids
}

// Emitter writes results as JSON lines; safe for concurrent use.
type Emitter struct {
	mu  sync.Mutex
	w   *bufio.Writer
	f   *os.File
	Mem []Result // used when no file is attached (replay)
}

func NewEmitter(path string) (*Emitter, error) {
	if path == "" {
		return &Emitter{}, nil
	}
	f, err := os.Create(path)
	if err != nil {
		return nil, err
	}
	return &Emitter{f: f, w: bufio.NewWriter(f)}, nil
}

func (e *Emitter) Emit(r Result) {
	e.mu.Lock()
	defer e.mu.Unlock()
	if e.w == nil {
		e.Mem = append(e.Mem, r)
		return
	}
	b, err := json.Marshal(r)
	if err != nil {
		b, _ = json.Marshal(Result{Case: r.Case, Verdict: Inconclusive, Msg: "unmarshalable result: " + err.Error()})
	}
	e.w.Write(b)
	e.w.WriteByte('\n')
	e.w.Flush()
}

// Begin marks that the case is about to touch the code under test (attribution of worker deaths).
func (e *Emitter) Begin(caseID string, replay any) {
	e.Emit(Result{Case: caseID, Begin: true, Replay: replay})
}

func (e *Emitter) Close() {
	e.mu.Lock()
	defer e.mu.Unlock()
	if e.w != nil {
		e.w.Flush()
		e.f.Close()
	}
}

// Guard runs f (real code under test called directly) and converts a panic into an error string.
func Guard(f func()) (panicMsg string) {
	defer func() {
		if r := recover(); r != nil {
			st := string(debug.Stack())
			if len(st) > 1500 {
				st = st[:1500]
			}
			panicMsg = fmt.Sprintf("panic: %v\n%s", r, st)
		}
	}()
	f()
	return ""
}

// SafeCase runs one case; a panic escaping the case body (i.e. in harness code) is reported as inconclusive.
func SafeCase(em *Emitter, caseID string, f func()) {
	defer func() {
		if r := recover(); r != nil {
			st := string(debug.Stack())
			if len(st) > 2500 {
				st = st[:2500]
			}
			em.Emit(Result{Case: caseID, Verdict: Inconclusive, Msg: fmt.Sprintf("harness panic: %v\n%s", r, st)})
		}
	}()
	f()
}

// Parallel runs n jobs with at most width running at once.
func Parallel(n, width int, job func(i int)) {
	if width < 1 {
		width = 1
	}
	sem := make(chan struct{}, width)
	var wg sync.WaitGroup
	for i := 0; i < n; i++ {
		wg.Add(1)
		sem <- struct{}{}
		go func(i int) {
			defer wg.Done()
			defer func() { <-sem }()
			job(i)
		}(i)
	}
	wg.Wait()
}

// ---------------------------------------------------------------------------------------------
// Known findings

type Finding struct {
	Property string `json:"property"`
	Key      string `json:"key"`
	Status   string `json:"status"` // "known" | "fixed"
	Commit   string `json:"commit,omitempty"`
	What     string `json:"what"`
}

// LoadFindings parses /verif/known_findings.txt. One entry per line:
//
//	known: property=<ID> key=<signature> <what fails>
//	fixed: property=<ID> <commit> key=<signature> <what failed>
//
// "known" entries turn a violation with that signature into a KNOWN-FINDING line; "fixed" entries
// suppress nothing. The file is never written at run time.
func LoadFindings() []Finding {
	b, err := os.ReadFile(filepath.Join(VerifDir, "known_findings.txt"))
	if err != nil {
		return nil
	}
	var fs []Finding
	for _, ln := range strings.Split(string(b), "\n") {
		ln = strings.TrimSpace(ln)
		var f Finding
		switch {
		case strings.HasPrefix(ln, "known:"):
			f.Status = "known"
			ln = strings.TrimSpace(strings.TrimPrefix(ln, "known:"))
		case strings.HasPrefix(ln, "fixed:"):
			f.Status = "fixed"
			ln = strings.TrimSpace(strings.TrimPrefix(ln, "fixed:"))
		default:
			continue
		}
		parts := strings.Fields(ln)
		rest := []string{}
		for _, p := range parts {
			switch {
			case strings.HasPrefix(p, "property=") && f.Property == "":
				f.Property = strings.TrimPrefix(p, "property=")
			case strings.HasPrefix(p, "key=") && f.Key == "":
				f.Key = strings.TrimPrefix(p, "key=")
			default:
				rest = append(rest, p)
			}
		}
		if f.Status == "fixed" && len(rest) > 0 {
			f.Commit = rest[0]
			rest = rest[1:]
		}
		f.What = strings.Join(rest, " ")
		fs = append(fs, f)
	}
	return fs
}

// ---------------------------------------------------------------------------------------------
// Parent side

type runStats struct {
	evals        int
	classes      map[string]int
	obs          map[string]int
	samples      []any
	violations   []Result
	inconclusive int
	inconclMsgs  []string
	notes        []string
}

func Seed() int64 {
	if s := os.Getenv("VERIF_SEED"); s != "" {
		if v, err := strconv.ParseInt(s, 10, 64); err == nil {
			return v
		}
	}
	return 1
}

func procWidth() int {
	if s := os.Getenv("VERIF_PROCS"); s != "" {
		if v, err := strconv.Atoi(s); err == nil && v > 0 {
			return v
		}
	}
	return 4
}

// RunParent executes the whole check for one property and returns the process exit code.
func RunParent(id, tier string) int {
	p := Get(id)
	if p == nil {
		fmt.Fprintf(os.Stderr, "unknown property %s\n", id)
		return 2
	}
	start := time.Now()
	seed := Seed()
	batches := p.Plan(tier, seed)
	scratch, err := os.MkdirTemp("", "vcheck-"+id+"-")
	if err != nil {
		fmt.Fprintln(os.Stderr, err)
		return 2
	}
	defer os.RemoveAll(scratch)

	if os.Getenv("VERIF_EVIDENCE_DIR") == "" {
		os.RemoveAll(filepath.Join(VerifDir, "replays", id)) // witnesses of earlier runs are stale
	}
	st := &runStats{classes: map[string]int{}, obs: map[string]int{}}
	var mu sync.Mutex
	Parallel(len(batches), procWidth(), func(i int) {
		b := batches[i]
		b.Prop, b.Tier, b.Seed = id, tier, seed
		if b.Name == "" {
			b.Name = fmt.Sprintf("b%03d", i)
		}
		res := runWorker(scratch, i, b)
		mu.Lock()
		defer mu.Unlock()
		mergeResults(st, res)
	})

	// known findings
	findings := LoadFindings()
	known := map[string]Finding{}
	for _, f := range findings {
		if f.Property == id && f.Status == "known" {
			known[f.Key] = f
		}
	}
	knownSeen := map[string]int{}
	var fresh []Result
	for _, v := range st.violations {
		if _, ok := known[v.Key]; ok && v.Key != "" {
			knownSeen[v.Key]++
			continue
		}
		fresh = append(fresh, v)
	}
	keys := make([]string, 0, len(knownSeen))
	for k := range knownSeen {
		keys = append(keys, k)
	}
	sort.Strings(keys)
	for _, k := range keys {
		fmt.Printf("KNOWN-FINDING: property=%s %s [key=%s, seen %d times]\n", id, known[k].What, k, knownSeen[k])
	}

	// replay files: one per distinct key (first witness), at most 20
	exit := 0
	seenKey := map[string]bool{}
	nrep := 0
	for _, v := range fresh {
		k := v.Key
		if k == "" {
			k = v.Case
		}
		if seenKey[k] {
			continue
		}
		seenKey[k] = true
		if nrep >= 20 {
			continue
		}
		nrep++
		path := writeReplay(id, tier, seed, v)
		fmt.Printf("VIOLATION property=%s replay=%s\n", id, path)
		msg := v.Msg
		if len(msg) > 600 {
			msg = msg[:600] + "…"
		}
		fmt.Printf("  key=%s case=%s: %s\n", v.Key, v.Case, msg)
		exit = 1
	}

	distinct := 0
	for range st.classes {
		distinct++
	}
	wall := time.Since(start).Seconds()
	broken := ""
	if st.evals == 0 || distinct < 2 {
		broken = fmt.Sprintf("monitors observed too little (evaluations=%d distinct=%d): check is broken, not 'held'", st.evals, distinct)
	}
	if st.evals > 0 && st.inconclusive*5 > st.evals {
		broken = fmt.Sprintf("%d of %d cases inconclusive", st.inconclusive, st.evals)
	}
	writeEvidence(p, tier, seed, st, distinct, len(fresh), knownSeen, wall)
	fmt.Printf("%s %s seed=%d: evaluations=%d distinct_nontrivial=%d violations=%d known=%d inconclusive=%d wall=%.1fs\n",
		id, tier, seed, st.evals, distinct, len(fresh), len(st.violations)-len(fresh), st.inconclusive, wall)
	for i, m := range st.inconclMsgs {
		if i >= 5 {
			break
		}
		fmt.Printf("  inconclusive: %s\n", trunc(m, 400))
	}
	if broken != "" && exit == 0 {
		fmt.Printf("BROKEN-CHECK property=%s %s\n", id, broken)
		return 2
	}
	return exit
}

func trunc(s string, n int) string {
	if len(s) > n {
		return s[:n] + "…"
	}
	return s
}

func mergeResults(st *runStats, res []Result) {
	for _, r := range res {
		if r.Begin {
			continue
		}
		if r.Note != "" {
			st.notes = append(st.notes, r.Note)
		}
		if r.Verdict == "" {
			continue
		}
		st.evals++
		for k, v := range r.Obs {
			st.obs[k] += v
		}
		switch r.Verdict {
		case Violated:
			st.violations = append(st.violations, r)
		case Inconclusive:
			st.inconclusive++
			st.inconclMsgs = append(st.inconclMsgs, r.Case+": "+r.Msg)
			continue
		}
		if r.Class != "" {
			st.classes[r.Class]++
			if r.Sample != nil && len(st.samples) < 6 && st.classes[r.Class] == 1 {
				st.samples = append(st.samples, r.Sample)
			}
		}
	}
}

func workerBinary(race bool) string {
	dir := filepath.Join(VerifDir, "bin")
	if d := os.Getenv("VERIF_BIN_DIR"); d != "" {
		dir = d // exploratory sweeps run from a private copy of the binaries
	}
	if race {
		return filepath.Join(dir, "vcheck-race")
	}
	return filepath.Join(dir, "vcheck")
}

func runWorker(scratch string, idx int, b Batch) []Result {
	for attempt := 0; attempt < 3; attempt++ {
		res, retry := runWorkerOnce(scratch, idx, attempt, b)
		if !retry {
			return res
		}
		if attempt == 2 {
			return res
		}
	}
	return nil
}

func runWorkerOnce(scratch string, idx, attempt int, b Batch) (results []Result, retry bool) {
	base := filepath.Join(scratch, fmt.Sprintf("%03d-%d", idx, attempt))
	spec := base + ".batch.json"
	out := base + ".out.jsonl"
	logf := base + ".log"
	bs, _ := json.Marshal(b)
	os.WriteFile(spec, bs, 0644)
	lf, _ := os.Create(logf)
	cmd := exec.Command(workerBinary(b.Race), "worker", spec, out)
	cmd.Stdout, cmd.Stderr = lf, lf
	cmd.Env = append(os.Environ(), "TZ=UTC", "VERIF_SCRATCH="+base+".d")
	if b.Race {
		cmd.Env = append(cmd.Env, "GORACE=halt_on_error=0 exitcode=0 log_path="+base+".race")
	}
	cmd.Env = append(cmd.Env, b.Env...)
	os.MkdirAll(base+".d", 0755)
	// an empty private working directory: code under test that loses its root and writes to a relative path lands
	// here (C07 reads it as a canary) instead of in /verif
	cwd := base + ".cwd"
	os.MkdirAll(cwd, 0755)
	cmd.Dir = cwd
	cmd.Env = append(cmd.Env, "VERIF_CWD_CANARY="+cwd)
	timeout := b.Timeout
	if timeout == 0 {
		timeout = 600
	}
	if err := cmd.Start(); err != nil {
		return []Result{{Case: b.Name, Verdict: Inconclusive, Msg: "cannot start worker: " + err.Error()}}, false
	}
	done := make(chan error, 1)
	go func() { done <- cmd.Wait() }()
	var werr error
	timedOut := false
	select {
	case werr = <-done:
	case <-time.After(time.Duration(timeout) * time.Second):
		timedOut = true
		cmd.Process.Signal(sigquit())
		select {
		case werr = <-done:
		case <-time.After(10 * time.Second):
			cmd.Process.Kill()
			werr = <-done
		}
	}
	lf.Close()
	results = readResults(out)
	os.RemoveAll(base + ".d")

	// race reports
	if b.Race {
		reports := ParseRaceLogs(base + ".race")
		for _, rr := range reports {
			results = append(results, Result{Case: b.Name + "/race", Note: "race: " + rr.Summary})
		}
		if len(reports) > 0 {
			results = append(results, RaceResults(b, reports)...)
		}
	}

	if timedOut {
		dump := tailFile(logf, 6000)
		results = append(results, Result{Case: b.Name + "/watchdog", Verdict: Inconclusive, Msg: "worker watchdog fired after " + strconv.Itoa(timeout) + "s; log tail:\n" + dump})
		return results, false
	}
	if werr != nil {
		// abnormal death: attribute to the last BEGIN without a verdict
		last := lastOpenCase(results)
		tail := tailFile(logf, 4000)
		if b.CrashIsViolation || isServerCodeCrash(tail) {
			key := "process-death"
			if strings.Contains(tail, "concurrent map") {
				key = "process-death/concurrent-map"
			}
			r := Result{Case: b.Name + "/crash", Class: "crash", Verdict: Violated, Key: key,
				Msg: fmt.Sprintf("worker process died (%v) while running case %q; log tail:\n%s", werr, last.Case, tail), Replay: last.Replay}
			results = append(results, r)
			return results, false
		}
		results = append(results, Result{Case: b.Name + "/crash", Verdict: Inconclusive,
			Msg: fmt.Sprintf("worker died (%v), last case %q; log tail:\n%s", werr, last.Case, tail)})
		return results, attempt < 2
	}
	return results, false
}

// isServerCodeCrash recognises Go fatal errors (not recoverable panics in harness code).
func isServerCodeCrash(tail string) bool {
	return strings.Contains(tail, "fatal error: concurrent map") || strings.Contains(tail, "fatal error: all goroutines are asleep")
}

func lastOpenCase(rs []Result) Result {
	open := map[string]Result{}
	var order []string
	for _, r := range rs {
		if r.Begin {
			open[r.Case] = r
			order = append(order, r.Case)
		} else if r.Verdict != "" {
			delete(open, r.Case)
		}
	}
	for i := len(order) - 1; i >= 0; i-- {
		if r, ok := open[order[i]]; ok {
			return r
		}
	}
	return Result{}
}

func readResults(path string) []Result {
	f, err := os.Open(path)
	if err != nil {
		return nil
	}
	defer f.Close()
	var rs []Result
	sc := bufio.NewScanner(f)
	sc.Buffer(make([]byte, 1<<20), 1<<28)
	for sc.Scan() {
		var r Result
		if json.Unmarshal(sc.Bytes(), &r) == nil {
			rs = append(rs, r)
		}
	}
	return rs
}

func tailFile(path string, n int) string {
	b, err := os.ReadFile(path)
	if err != nil {
		return ""
	}
	if len(b) > n {
		// keep the head too: fatal errors print their reason first
		head := b[:n/2]
		return string(head) + "\n…\n" + string(b[len(b)-n/2:])
	}
	return string(b)
}

func writeReplay(id, tier string, seed int64, v Result) string {
	dir := filepath.Join(VerifDir, "replays", id)
	os.MkdirAll(dir, 0755)
	payload := map[string]any{
		"property": id, "tier": tier, "seed": seed, "case": v.Case, "key": v.Key, "msg": v.Msg,
		"replay": v.Replay, "command": "bin/vcheck replay <this file>",
	}
	b, _ := json.MarshalIndent(payload, "", " ")
	h := sha256.Sum256([]byte(v.Key + "|" + v.Case + "|" + strconv.FormatInt(seed, 10)))
	path := filepath.Join(dir, hex.EncodeToString(h[:6])+".json")
	os.WriteFile(path, b, 0644)
	return path
}

func writeEvidence(p Prop, tier string, seed int64, st *runStats, distinct, fresh int, knownSeen map[string]int, wall float64) {
	classes := make([]string, 0, len(st.classes))
	for c := range st.classes {
		classes = append(classes, c)
	}
	sort.Strings(classes)
	if len(classes) > 60 {
		classes = classes[:60]
	}
	samples := st.samples
	if len(samples) == 0 {
		samples = []any{"(no case produced a sample)"}
	}
	notes := st.notes
	sort.Strings(notes)
	notes = dedupe(notes)
	if len(notes) > 40 {
		notes = notes[:40]
	}
	cov := map[string]any{
		"evaluations":         st.evals,
		"distinct_nontrivial": distinct,
		"rule":                p.Rule(),
		"samples":             samples,
		"observations":        st.obs,
		"classes_seen":        classes,
		"inconclusive":        st.inconclusive,
		"known_findings_seen": knownSeen,
		"notes":               notes,
	}
	if e, ok := p.(interface{ Exhaustive() string }); ok {
		cov["exhaustive"] = true
		cov["exhaustive_scope"] = e.Exhaustive()
	}
	ev := map[string]any{
		"property_id": p.ID(),
		"tier":        tier,
		"seed":        seed,
		"level":       p.Level(),
		"coverage":    cov,
		"assumptions": []string{
			"reference codec/client/models written from docs/HLProtocol.pages.pdf are the trusted base",
			"verdict covers only the executions produced by this run",
		},
		"wall_s":     wall,
		"violations": fresh,
	}
	b, _ := json.MarshalIndent(ev, "", " ")
	dir := filepath.Join(VerifDir, "evidence")
	if d := os.Getenv("VERIF_EVIDENCE_DIR"); d != "" {
		dir = d // exploratory runs (sweeps) keep their evidence apart from the registered one
	}
	os.MkdirAll(dir, 0755)
	os.WriteFile(filepath.Join(dir, p.ID()+".json"), b, 0644)
}

func dedupe(s []string) []string {
	var out []string
	for i, x := range s {
		if i == 0 || x != s[i-1] {
			out = append(out, x)
		}
	}
	return out
}

// ---------------------------------------------------------------------------------------------
// Worker side

func RunWorker(specPath, outPath string) int {
	bs, err := os.ReadFile(specPath)
	if err != nil {
		fmt.Fprintln(os.Stderr, err)
		return 2
	}
	var b Batch
	if err := json.Unmarshal(bs, &b); err != nil {
		fmt.Fprintln(os.Stderr, err)
		return 2
	}
	p := Get(b.Prop)
	if p == nil {
		fmt.Fprintln(os.Stderr, "unknown property", b.Prop)
		return 2
	}
	em, err := NewEmitter(outPath)
	if err != nil {
		fmt.Fprintln(os.Stderr, err)
		return 2
	}
	defer em.Close()
	p.Run(b, em)
	return 0
}

// RunReplay re-executes the case stored in a replay file.
func RunReplay(path string) int {
	bs, err := os.ReadFile(path)
	if err != nil {
		fmt.Fprintln(os.Stderr, err)
		return 2
	}
	var rf struct {
		Property string          `json:"property"`
		Replay   json.RawMessage `json:"replay"`
		Msg      string          `json:"msg"`
	}
	if err := json.Unmarshal(bs, &rf); err != nil {
		fmt.Fprintln(os.Stderr, err)
		return 2
	}
	p := Get(rf.Property)
	if p == nil {
		fmt.Fprintln(os.Stderr, "unknown property", rf.Property)
		return 2
	}
	em, _ := NewEmitter("")
	p.Replay(rf.Replay, em)
	code := 0
	for _, r := range em.Mem {
		if r.Begin {
			continue
		}
		fmt.Printf("%s %s key=%s %s\n", r.Verdict, r.Case, r.Key, trunc(r.Msg, 2000))
		if r.Verdict == Violated {
			code = 1
		}
	}
	if len(em.Mem) == 0 {
		fmt.Println("replay produced no result")
		return 2
	}
	return code
}

// CwdCanary lists what has appeared in the worker's (initially empty) working directory; nil when the process was
// not started by the parent with a canary directory.
func CwdCanary() []string {
	d := os.Getenv("VERIF_CWD_CANARY")
	if d == "" {
		return nil
	}
	es, _ := os.ReadDir(d)
	var out []string
	for _, e := range es {
		out = append(out, e.Name())
	}
	return out
}

// ScratchDir returns a per-worker scratch directory (removed by the parent).
func ScratchDir() string {
	d := os.Getenv("VERIF_SCRATCH")
	if d == "" {
		d, _ = os.MkdirTemp("", "vworker-")
	}
	os.MkdirAll(d, 0755)
	return d
}
