package core

import (
	"os"
	"path/filepath"
	"regexp"
	"sort"
	"strings"
	"syscall"
)

func sigquit() os.Signal { return syscall.SIGQUIT }

// RaceReport is one "WARNING: DATA RACE" block of a GORACE log.
type RaceReport struct {
	Summary    string   // de-duplication key: outermost entry points + stack pair without line numbers
	Funcs      []string // all function names in the two access stacks
	RuntimeMap bool     // one of the accesses is inside a runtime map operation
	Text       string
}

var lineNo = regexp.MustCompile(`:\d+( \+0x[0-9a-f]+)?$`)

// ParseRaceLogs reads every file whose name starts with prefix (GORACE log_path=prefix → prefix.<pid>).
func ParseRaceLogs(prefix string) []RaceReport {
	matches, _ := filepath.Glob(prefix + ".*")
	var all []RaceReport
	seen := map[string]bool{}
	for _, m := range matches {
		b, err := os.ReadFile(m)
		if err != nil {
			continue
		}
		blocks := strings.Split(string(b), "==================")
		for _, blk := range blocks {
			if !strings.Contains(blk, "WARNING: DATA RACE") {
				continue
			}
			r := parseRaceBlock(blk)
			if seen[r.Summary] {
				continue
			}
			seen[r.Summary] = true
			all = append(all, r)
		}
	}
	sort.Slice(all, func(i, j int) bool { return all[i].Summary < all[j].Summary })
	return all
}

func parseRaceBlock(blk string) RaceReport {
	lines := strings.Split(blk, "\n")
	var stacks [][]string
	var cur []string
	inAccess := false
	for _, ln := range lines {
		t := strings.TrimSpace(ln)
		switch {
		case strings.HasPrefix(t, "Write at") || strings.HasPrefix(t, "Read at") || strings.HasPrefix(t, "Previous write at") || strings.HasPrefix(t, "Previous read at"):
			if cur != nil {
				stacks = append(stacks, cur)
			}
			cur = []string{}
			inAccess = true
		case strings.HasPrefix(t, "Goroutine ") && strings.Contains(t, "created at"):
			if cur != nil {
				stacks = append(stacks, cur)
				cur = nil
			}
			inAccess = false
		case inAccess && t != "" && !strings.HasPrefix(t, "/") && strings.HasSuffix(t, ")") && strings.Contains(t, "("):
			// function line like "pkg.Func(...)" or "pkg.(*T).M()"
			fn := t
			if i := strings.LastIndex(fn, "("); i > 0 {
				fn = fn[:i]
			}
			cur = append(cur, fn)
		}
	}
	if cur != nil {
		stacks = append(stacks, cur)
	}
	r := RaceReport{Text: blk}
	var parts []string
	// RuntimeMap: BOTH conflicting accesses are inside runtime map operations (mapaccess*, mapassign*, mapdelete*,
	// mapiter*): only those check the map's writing flag and abort the process ("concurrent map read and map
	// write"). A plain len(m) or a field read racing with a map write is a data race but not a process abort.
	inMap := 0
	for _, s := range stacks {
		if len(s) > 0 && strings.HasPrefix(s[0], "runtime.map") {
			inMap++
		}
		for _, f := range s {
			r.Funcs = append(r.Funcs, f)
		}
		// innermost non-runtime frame + outermost frame
		inner, outer := "", ""
		for _, f := range s {
			if !strings.HasPrefix(f, "runtime.") && inner == "" {
				inner = f
			}
			outer = f
		}
		parts = append(parts, inner+"<-"+outer)
	}
	r.RuntimeMap = len(stacks) >= 2 && inMap == len(stacks)
	sort.Strings(parts)
	r.Summary = strings.Join(parts, " || ")
	if r.RuntimeMap {
		r.Summary = "[runtime.map] " + r.Summary
	}
	_ = lineNo
	return r
}

// RaceClassifier lets a property decide which race reports are violations. Default: none.
var RaceClassifier = map[string]func(b Batch, r RaceReport) (violation bool, key string){}

func RaceResults(b Batch, reports []RaceReport) []Result {
	cl := RaceClassifier[b.Prop]
	var out []Result
	for _, r := range reports {
		if cl == nil {
			continue
		}
		if v, key := cl(b, r); v {
			txt := r.Text
			if len(txt) > 3000 {
				txt = txt[:3000]
			}
			out = append(out, Result{Case: b.Name + "/race/" + key, Class: "race", Verdict: Violated, Key: key, Msg: "race detector report:\n" + txt})
		}
	}
	return out
}
