package core

// Rand is a small deterministic PRNG (splitmix64) so that case lists depend on the seed only.
type Rand struct{ s uint64 }

func NewRand(seed int64, stream ...uint64) *Rand {
	r := &Rand{s: uint64(seed)*0x9E3779B97F4A7C15 + 0x1234567}
	for _, x := range stream {
		r.s ^= (x + 0x9E3779B97F4A7C15) * 0xBF58476D1CE4E5B9
		r.Uint64()
	}
	return r
}

func (r *Rand) Uint64() uint64 {
	r.s += 0x9E3779B97F4A7C15
	z := r.s
	z = (z ^ (z >> 30)) * 0xBF58476D1CE4E5B9
	z = (z ^ (z >> 27)) * 0x94D049BB133111EB
	return z ^ (z >> 31)
}

func (r *Rand) Intn(n int) int {
	if n <= 0 {
		return 0
	}
	return int(r.Uint64() % uint64(n))
}

func (r *Rand) Bool() bool { return r.Uint64()&1 == 1 }

// Chance returns true with probability num/den.
func (r *Rand) Chance(num, den int) bool { return r.Intn(den) < num }

func (r *Rand) Bytes(n int) []byte {
	b := make([]byte, n)
	for i := range b {
		b[i] = byte(r.Uint64())
	}
	return b
}

// Pick returns one element of xs.
func Pick[T any](r *Rand, xs []T) T { return xs[r.Intn(len(xs))] }

// Range returns an int in [lo,hi].
func (r *Rand) Range(lo, hi int) int {
	if hi <= lo {
		return lo
	}
	return lo + r.Intn(hi-lo+1)
}

// Printable returns n bytes drawn from ASCII letters/digits/space-ish set.
func (r *Rand) Printable(n int) []byte {
	const set = "abcdefghijklmnopqrstuvwxyzABCDEFGHIJKLMNOPQRSTUVWXYZ0123456789 _-"
	b := make([]byte, n)
	for i := range b {
		b[i] = set[r.Intn(len(set))]
	}
	return b
}

func (r *Rand) Perm(n int) []int {
	p := make([]int, n)
	for i := range p {
		p[i] = i
	}
	for i := n - 1; i > 0; i-- {
		j := r.Intn(i + 1)
		p[i], p[j] = p[j], p[i]
	}
	return p
}
