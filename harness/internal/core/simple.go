package core

import (
	"encoding/json"
	"fmt"
	"sync"
)

// Simple is the common shape of most property checks: a fixed number of cases per tier, each fully
// determined by (seed, tier, index), split into batches, run with bounded parallelism in a worker.
type Simple struct {
	Id       string
	Lvl      string
	RuleText string
	Quick    int // cases in the quick tier
	Thorough int // cases in the thorough tier
	PerBatch int // cases per worker process
	Width    int // parallel cases inside a worker
	Race     bool
	Timeout  int
	Crash    bool // worker death is a violation
	Case     func(c *Case)
	// Extra lets a property add special batches (e.g. a race-build stress batch).
	Extra func(tier string, seed int64) []Batch
	// RunExtra executes a batch whose Name is not a plain case range.
	RunExtra func(b Batch, em *Emitter)
}

type simpleArgs struct {
	From int `json:"from"`
	To   int `json:"to"`
}

type simpleReplay struct {
	Index int    `json:"index"`
	Seed  int64  `json:"seed"`
	Tier  string `json:"tier"`
}

func (s *Simple) ID() string    { return s.Id }
func (s *Simple) Level() string { return s.Lvl }
func (s *Simple) Rule() string  { return s.RuleText }

func (s *Simple) Plan(tier string, seed int64) []Batch {
	n := s.Quick
	if tier == "thorough" {
		n = s.Thorough
	}
	per := s.PerBatch
	if per <= 0 {
		per = n
	}
	var bs []Batch
	for from := 0; from < n; from += per {
		to := from + per
		if to > n {
			to = n
		}
		a, _ := json.Marshal(simpleArgs{from, to})
		bs = append(bs, Batch{Name: fmt.Sprintf("cases-%d-%d", from, to), Race: s.Race, Args: a, Timeout: s.Timeout, CrashIsViolation: s.Crash})
	}
	if s.Extra != nil {
		bs = append(bs, s.Extra(tier, seed)...)
	}
	return bs
}

func (s *Simple) Run(b Batch, em *Emitter) {
	if len(b.Name) < 6 || b.Name[:6] != "cases-" {
		if s.RunExtra != nil {
			s.RunExtra(b, em)
		}
		return
	}
	var a simpleArgs
	json.Unmarshal(b.Args, &a)
	w := s.Width
	if w <= 0 {
		w = 16
	}
	Parallel(a.To-a.From, w, func(i int) {
		s.runCase(b.Tier, b.Seed, a.From+i, em)
	})
}

func (s *Simple) runCase(tier string, seed int64, idx int, em *Emitter) {
	id := fmt.Sprintf("%s/%s/%d", s.Id, tier, idx)
	c := &Case{ID: id, Index: idx, Seed: seed, Tier: tier, R: NewRand(seed, uint64(idx), 0xC0FFEE), em: em, Obs: map[string]int{}}
	SafeCase(em, id, func() {
		em.Begin(id, simpleReplay{idx, seed, tier})
		s.Case(c)
		c.finish()
	})
}

// RunOne executes a single case (used by children that run cases under an external tracer).
func (s *Simple) RunOne(tier string, seed int64, idx int, em *Emitter) {
	s.runCase(tier, seed, idx, em)
}

func (s *Simple) Replay(payload json.RawMessage, em *Emitter) {
	var r simpleReplay
	if err := json.Unmarshal(payload, &r); err != nil || r.Tier == "" {
		em.Emit(Result{Case: "replay", Verdict: Inconclusive, Msg: "replay payload is not a case index"})
		return
	}
	s.runCase(r.Tier, r.Seed, r.Index, em)
}

// Case is the context handed to one case.
type Case struct {
	ID    string
	Index int
	Seed  int64
	Tier  string
	R     *Rand
	Obs   map[string]int

	em      *Emitter
	mu      sync.Mutex
	verdict Verdict
	key     string
	msg     string
	class   string
	sample  any
	done    bool
}

// Fail records a violation (the first one wins).
func (c *Case) Fail(key, format string, args ...any) {
	c.mu.Lock()
	defer c.mu.Unlock()
	if c.verdict == Violated {
		return
	}
	c.verdict, c.key, c.msg = Violated, key, fmt.Sprintf(format, args...)
}

// Unsure marks the case inconclusive (unless already violated).
func (c *Case) Unsure(format string, args ...any) {
	c.mu.Lock()
	defer c.mu.Unlock()
	if c.verdict == "" {
		c.verdict, c.msg = Inconclusive, fmt.Sprintf(format, args...)
	}
}

func (c *Case) Failed() bool {
	c.mu.Lock()
	defer c.mu.Unlock()
	return c.verdict == Violated
}

// Describe sets the distinctness class and the written-out sample of the case.
func (c *Case) Describe(class string, sample any) {
	c.mu.Lock()
	c.class, c.sample = class, sample
	c.mu.Unlock()
}

func (c *Case) Count(name string, n int) {
	c.mu.Lock()
	c.Obs[name] += n
	c.mu.Unlock()
}

func (c *Case) finish() {
	c.mu.Lock()
	defer c.mu.Unlock()
	if c.done {
		return
	}
	c.done = true
	v := c.verdict
	if v == "" {
		v = Held
	}
	c.em.Emit(Result{Case: c.ID, Class: c.class, Verdict: v, Key: c.key, Msg: c.msg, Obs: c.Obs, Sample: c.sample,
		Replay: simpleReplay{c.Index, c.Seed, c.Tier}})
}
