// Package fixture builds a real jhalter/mobius server (hotline.NewServer + the five real stores +
// RegisterHandlers, assembled like cmd/mobius-hotline-server/main.go) on a scratch directory and
// provides hook-based logical quiescence.
package fixture

import (
	"context"
	"crypto/sha256"
	"encoding/hex"
	"fmt"
	"log/slog"
	"os"
	"path/filepath"
	"runtime"
	"sort"
	"strings"
	"sync"
	"sync/atomic"
	"time"

	"github.com/jhalter/mobius/hotline"
	"github.com/jhalter/mobius/verifshim"
	"golang.org/x/crypto/bcrypt"

	"verifharness/internal/refcodec"
	"verifharness/internal/transport"
)

// AccessNames maps privilege number → protocol name as used in the account file
// (reference table written from the protocol document; bit 40 per the documented correction).
var AccessNames = map[int]string{
	0: "DeleteFile", 1: "UploadFile", 2: "DownloadFile", 3: "RenameFile", 4: "MoveFile",
	5: "CreateFolder", 6: "DeleteFolder", 7: "RenameFolder", 8: "MoveFolder", 9: "ReadChat",
	10: "SendChat", 11: "OpenChat", 12: "CloseChat", 13: "ShowInList", 14: "CreateUser",
	15: "DeleteUser", 16: "OpenUser", 17: "ModifyUser", 18: "ChangeOwnPass", 20: "NewsReadArt",
	21: "NewsPostArt", 22: "DisconnectUser", 23: "CannotBeDisconnected", 24: "GetClientInfo",
	25: "UploadAnywhere", 26: "AnyName", 27: "NoAgreement", 28: "SetFileComment",
	29: "SetFolderComment", 30: "ViewDropBoxes", 31: "MakeAlias", 32: "Broadcast",
	33: "NewsDeleteArt", 34: "NewsCreateCat", 35: "NewsDeleteCat", 36: "NewsCreateFldr",
	37: "NewsDeleteFldr", 38: "UploadFolder", 39: "DownloadFolder", 40: "SendPrivMsg",
}

// DefinedBits lists the 40 defined privilege numbers in ascending order.
func DefinedBits() []int {
	var bs []int
	for b := range AccessNames {
		bs = append(bs, b)
	}
	sort.Ints(bs)
	return bs
}

type Account struct {
	Login    string
	Name     string
	Password string // clear text (the server stores a hash of the obfuscated bytes the client sends)
	Access   []byte // 8 bytes
	FileRoot string
	RawHash  string // when set, written verbatim as the stored hash ("-" = empty string)
}

var hashCache sync.Map

func HashPassword(pw string) string {
	if h, ok := hashCache.Load(pw); ok {
		return h.(string)
	}
	h, _ := bcrypt.GenerateFromPassword([]byte(pw), bcrypt.MinCost)
	hashCache.Store(pw, string(h))
	return string(h)
}

func yamlQuote(s string) string {
	var sb strings.Builder
	sb.WriteByte('"')
	for _, c := range []byte(s) {
		switch {
		case c == '"':
			sb.WriteString(`\"`)
		case c == '\\':
			sb.WriteString(`\\`)
		case c < 0x20 || c >= 0x7f:
			fmt.Fprintf(&sb, `\x%02x`, c)
		default:
			sb.WriteByte(c)
		}
	}
	sb.WriteByte('"')
	return sb.String()
}

// AccountYAML renders an account file in the named-flag format.
func AccountYAML(a Account) string {
	var sb strings.Builder
	hash := HashPassword(string(refcodec.Obfuscate([]byte(a.Password))))
	if a.RawHash == "-" {
		hash = ""
	} else if a.RawHash != "" {
		hash = a.RawHash
	}
	fmt.Fprintf(&sb, "Login: %s\nName: %s\nPassword: %s\nAccess:\n", yamlQuote(a.Login), yamlQuote(a.Name), yamlQuote(hash))
	// DownloadFile first: the loader recognises the new format by this key.
	order := append([]int{2}, DefinedBits()...)
	seen := map[int]bool{}
	for _, b := range order {
		if seen[b] {
			continue
		}
		seen[b] = true
		fmt.Fprintf(&sb, "    %s: %v\n", AccessNames[b], refcodec.BitSet(a.Access, b))
	}
	fmt.Fprintf(&sb, "FileRoot: %s\n", yamlQuote(a.FileRoot))
	return sb.String()
}

type Options struct {
	Accounts       []Account // default: guest (typical guest bits) + admin (all bits, no password)
	Agreement      string
	Board          string
	NewsYAML       string
	PreserveForks  bool
	IgnoreFiles    []string // nil → default patterns
	Banner         []byte
	BannerFile     string
	Files          func(root string) // populates the file root
	RootDepth      int               // nest the file root this many directories below Dir (for sandbox canaries)
	Dir            string            // reuse this directory instead of creating one (restart)
	NoOutbox       bool              // do not start processOutbox (handler-level checks drain the channel themselves)
	NewsDateFormat string
}

type Server struct {
	S         *hotline.Server
	Dir       string // scratch root
	ConfigDir string
	FileRoot  string
	ownsDir   bool

	dequeued atomic.Int64
	sent     atomic.Int64
	Panics   atomic.Int64 // recovered panics logged by the server

	mu    sync.Mutex
	conns []*transport.Conn
	// OnEvent, if set, is called for every hook event of this server (may sleep to widen windows).
	OnEvent func(name string, cid [2]byte, x uint32)
	Events  sync.Map // name → *atomic.Int64
}

var servers sync.Map // *hotline.Server → *Server
var hookOnce sync.Once

func installHook() {
	hookOnce.Do(func() {
		verifshim.InstallHook(func(name string, srv any, cid [2]byte, x uint32) {
			v, ok := servers.Load(srv)
			if !ok {
				return
			}
			s := v.(*Server)
			switch name {
			case "outbox.dequeued":
				s.dequeued.Add(1)
			case "outbox.sent":
				s.sent.Add(1)
			}
			c, _ := s.Events.LoadOrStore(name, new(atomic.Int64))
			c.(*atomic.Int64).Add(1)
			if f := s.OnEvent; f != nil {
				f(name, cid, x)
			}
		})
	})
}

// panicCounter is a slog handler that drops everything but counts the server's "PANIC" records.
type panicCounter struct{ s *Server }

func (h panicCounter) Enabled(_ context.Context, l slog.Level) bool { return l >= slog.LevelError }
func (h panicCounter) Handle(_ context.Context, r slog.Record) error {
	if r.Message == "PANIC" {
		h.s.Panics.Add(1)
	}
	return nil
}
func (h panicCounter) WithAttrs([]slog.Attr) slog.Handler { return h }
func (h panicCounter) WithGroup(string) slog.Handler      { return h }

func GuestBits() []byte {
	return refcodec.Bitmap(2, 39, 1, 38, 9, 10, 11, 20, 21, 26, 40)
}

func DefaultAccounts() []Account {
	return []Account{
		{Login: "guest", Name: "guest", Password: "", Access: GuestBits()},
		{Login: "admin", Name: "admin", Password: "", Access: refcodec.AllBits()},
	}
}

const DateFormat = "=date="

func New(opt Options) (*Server, error) {
	installHook()
	s := &Server{}
	if opt.Dir != "" {
		s.Dir = opt.Dir
	} else {
		base := os.Getenv("VERIF_SCRATCH")
		if base != "" {
			os.MkdirAll(base, 0755)
		}
		d, err := os.MkdirTemp(base, "srv-")
		if err != nil {
			return nil, err
		}
		s.Dir = d
		s.ownsDir = true
	}
	s.ConfigDir = filepath.Join(s.Dir, "config")
	rootParent := s.Dir
	for i := 0; i < opt.RootDepth; i++ {
		rootParent = filepath.Join(rootParent, fmt.Sprintf("l%d", i+1))
	}
	s.FileRoot = filepath.Join(rootParent, "root")
	if opt.Dir == "" {
		if err := os.MkdirAll(filepath.Join(s.ConfigDir, "Users"), 0755); err != nil {
			return nil, err
		}
		if err := os.MkdirAll(s.FileRoot, 0755); err != nil {
			return nil, err
		}
		accs := opt.Accounts
		if accs == nil {
			accs = DefaultAccounts()
		}
		for _, a := range accs {
			if err := os.WriteFile(filepath.Join(s.ConfigDir, "Users", a.Login+".yaml"), []byte(AccountYAML(a)), 0644); err != nil {
				return nil, err
			}
		}
		news := opt.NewsYAML
		if news == "" {
			news = "Categories: {}\n"
		}
		os.WriteFile(filepath.Join(s.ConfigDir, "Agreement.txt"), []byte(opt.Agreement), 0644)
		os.WriteFile(filepath.Join(s.ConfigDir, "MessageBoard.txt"), []byte(opt.Board), 0644)
		os.WriteFile(filepath.Join(s.ConfigDir, "ThreadedNews.yaml"), []byte(news), 0644)
		if opt.Files != nil {
			opt.Files(s.FileRoot)
		}
	}
	ignore := opt.IgnoreFiles
	if ignore == nil {
		ignore = []string{`^\.`, `^@`}
	}
	df := opt.NewsDateFormat
	if df == "" {
		df = DateFormat
	}
	cfg := hotline.Config{
		Name: "verif", Description: "verif", FileRoot: s.FileRoot, NewsDateFormat: df,
		PreserveResourceForks: opt.PreserveForks, IgnoreFiles: ignore, BannerFile: opt.BannerFile,
	}
	srv, err := hotline.NewServer(hotline.WithConfig(cfg), hotline.WithLogger(slog.New(panicCounter{s})))
	if err != nil {
		return nil, err
	}
	s.S = srv
	if srv.MessageBoard, err = verifshim.NewFlatNews(filepath.Join(s.ConfigDir, "MessageBoard.txt")); err != nil {
		return nil, fmt.Errorf("board: %w", err)
	}
	if srv.BanList, err = verifshim.NewBanFile(filepath.Join(s.ConfigDir, "Banlist.yaml")); err != nil {
		return nil, fmt.Errorf("banlist: %w", err)
	}
	if srv.ThreadedNewsMgr, err = verifshim.NewThreadedNewsYAML(filepath.Join(s.ConfigDir, "ThreadedNews.yaml")); err != nil {
		return nil, fmt.Errorf("news: %w", err)
	}
	if srv.AccountManager, err = verifshim.NewYAMLAccountManager(filepath.Join(s.ConfigDir, "Users")); err != nil {
		return nil, fmt.Errorf("accounts: %w", err)
	}
	if srv.Agreement, err = verifshim.NewAgreement(s.ConfigDir, "\r"); err != nil {
		return nil, fmt.Errorf("agreement: %w", err)
	}
	srv.Banner = opt.Banner
	verifshim.RegisterHandlers(srv)
	servers.Store(srv, s)
	if !opt.NoOutbox {
		go srv.VerifProcessOutbox()
	}
	return s, nil
}

// Close forgets the server and removes its scratch directory (if it created it).
func (s *Server) Close() {
	servers.Delete(s.S)
	if s.ownsDir {
		os.RemoveAll(s.Dir)
	}
}

// Track registers a connection for quiescence detection.
func (s *Server) Track(c *transport.Conn) {
	s.mu.Lock()
	s.conns = append(s.conns, c)
	s.mu.Unlock()
}

func (s *Server) Conns() []*transport.Conn {
	s.mu.Lock()
	defer s.mu.Unlock()
	return append([]*transport.Conn(nil), s.conns...)
}

func (s *Server) EventCount(name string) int64 {
	if c, ok := s.Events.Load(name); ok {
		return c.(*atomic.Int64).Load()
	}
	return 0
}

// TotalEvents sums every hook event counter of this server.
func (s *Server) TotalEvents() int64 {
	var n int64
	s.Events.Range(func(_, v any) bool { n += v.(*atomic.Int64).Load(); return true })
	return n
}

// NoProgressFor reports whether the server raised no hook event at all (no transaction handled, dequeued or sent, no
// connection registered) during d. Called while a request is outstanding, true means the server is wedged, not slow:
// the polling goroutine shares the Go scheduler with the server's goroutines, so if it gets to run for d, they would
// too, unless they are blocked or spinning.
func (s *Server) NoProgressFor(d time.Duration) bool {
	start := s.TotalEvents()
	for deadline := time.Now().Add(d); time.Now().Before(deadline); {
		time.Sleep(50 * time.Millisecond)
		if s.TotalEvents() != start {
			return false
		}
	}
	return true
}

// Stacks returns the stacks of the goroutines that are inside the server's packages (for wedge witnesses).
func Stacks() string {
	buf := make([]byte, 4<<20)
	buf = buf[:runtime.Stack(buf, true)]
	var out []string
	for _, g := range strings.Split(string(buf), "\n\n") {
		if strings.Contains(g, "jhalter/mobius/hotline.") || strings.Contains(g, "jhalter/mobius/internal/mobius.") {
			if len(g) > 1500 {
				g = g[:1500]
			}
			out = append(out, g)
		}
		if len(out) >= 12 {
			break
		}
	}
	return strings.Join(out, "\n\n")
}

// MarkerType is the transaction type of the barrier transaction pushed through the outbox;
// it is addressed to client ID 0 and ignored by the reference client.
const MarkerType = 0xFFFF

// Quiesce waits for logical quiescence: every tracked connection has had all its input consumed and
// its server goroutine is parked in Read (or the connection is closed), a barrier transaction has
// passed through the outbox, and every dequeued transaction has been written or dropped.
// The wall-clock limit is a watchdog; false means inconclusive.
func (s *Server) Quiesce(limit time.Duration) bool {
	deadline := time.Now().Add(limit)
	for round := 0; ; round++ {
		for _, c := range s.Conns() {
			remaining := time.Until(deadline)
			if remaining <= 0 || !c.WaitIdle(remaining) {
				return false
			}
		}
		// barrier: when this send completes, processOutbox has finished every earlier iteration,
		// so the dequeued counter covers everything pushed before.
		marker := hotline.Transaction{Type: hotline.TranType{0xFF, 0xFF}}
		select {
		case s.S.VerifOutbox() <- marker:
		case <-time.After(time.Until(deadline)):
			return false
		}
		for s.sent.Load() != s.dequeued.Load() {
			if time.Now().After(deadline) {
				return false
			}
			runtime.Gosched()
			time.Sleep(20 * time.Microsecond)
		}
		// writes do not generate input, but a handler may have been running while we looked: re-check.
		stable := true
		for _, c := range s.Conns() {
			if !c.Idle() {
				stable = false
			}
		}
		if stable && round >= 1 {
			return true
		}
		if time.Now().After(deadline) {
			return false
		}
	}
}

// ---- snapshots ----

// Snapshot lists dir recursively: relative path → "d" | "f:<size>:<sha256>" | "l:<target>".
func Snapshot(dir string) map[string]string {
	m := map[string]string{}
	filepath.Walk(dir, func(p string, info os.FileInfo, err error) error {
		if err != nil {
			return nil
		}
		rel, _ := filepath.Rel(dir, p)
		if rel == "." {
			return nil
		}
		switch {
		case info.Mode()&os.ModeSymlink != 0:
			t, _ := os.Readlink(p)
			m[rel] = "l:" + t
		case info.IsDir():
			m[rel] = "d"
		default:
			b, err := os.ReadFile(p)
			if err != nil {
				m[rel] = "f:unreadable"
				return nil
			}
			h := sha256.Sum256(b)
			m[rel] = fmt.Sprintf("f:%d:%s", len(b), hex.EncodeToString(h[:8]))
		}
		return nil
	})
	return m
}

// Diff describes the differences between two snapshots (empty = equal).
func Diff(a, b map[string]string) []string {
	var d []string
	for k, v := range a {
		if w, ok := b[k]; !ok {
			d = append(d, "removed "+k+" ("+v+")")
		} else if w != v {
			d = append(d, "changed "+k+" ("+v+" -> "+w+")")
		}
	}
	for k, v := range b {
		if _, ok := a[k]; !ok {
			d = append(d, "added "+k+" ("+v+")")
		}
	}
	sort.Strings(d)
	return d
}

// WriteFile creates path (and its parent directories) with the given content.
func WriteFile(path, content string) {
	os.MkdirAll(filepath.Dir(path), 0755)
	os.WriteFile(path, []byte(content), 0644)
}
