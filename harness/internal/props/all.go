// Package props links every property package into the binary.
package props

import (
	_ "verifharness/internal/props/c01"
	_ "verifharness/internal/props/c02"
	_ "verifharness/internal/props/c03"
	_ "verifharness/internal/props/c04"
	_ "verifharness/internal/props/c05"
	_ "verifharness/internal/props/c06"
	_ "verifharness/internal/props/c07"
	_ "verifharness/internal/props/c08"
	_ "verifharness/internal/props/c09"
	_ "verifharness/internal/props/c10"
	_ "verifharness/internal/props/c11"
	_ "verifharness/internal/props/c12"
	_ "verifharness/internal/props/c13"
	_ "verifharness/internal/props/c14"
	_ "verifharness/internal/props/c15"
	_ "verifharness/internal/props/c16"
	_ "verifharness/internal/props/c17"
	_ "verifharness/internal/props/c18"
	_ "verifharness/internal/props/c19"
	_ "verifharness/internal/props/c20"
)
