// Package c01 checks wire-format fidelity of every protocol object: real encoders are drained with
// scripted buffer sizes and compared with the reference codec; real decoders are fed reference bytes.
package c01

import (
	"bytes"
	"encoding/binary"
	"encoding/json"
	"fmt"
	"context"
	"io"
	"net"
	"os"
	"runtime"
	"sync"
	"path/filepath"
	"sort"
	"strings"
	"time"

	"github.com/jhalter/mobius/hotline"
	"golang.org/x/text/encoding/charmap"

	"verifharness/internal/core"
	"verifharness/internal/fixture"
	"verifharness/internal/refclient"
	rc "verifharness/internal/refcodec"
)

type prop struct{}

func init() { core.Register(prop{}) }

func (prop) ID() string    { return "C01" }
func (prop) Level() string { return "exploration" }
func (prop) Rule() string {
	return "objects of every serialisable type are generated from the seed (all one-byte-prefixed string lengths 0..255, boundary field sizes, random contents); each real encoder is drained under ~12 buffer-size scripts and compared byte-for-byte with the reference encoding, each real decoder is fed the reference bytes. A case is one (object, script set); distinct = (type, length class, outcome of decoder check); non-trivial = the object has at least one variable-length part"
}

type args struct {
	Types []string `json:"types"`
	N     int      `json:"n"`   // random objects per type
	Exh   bool     `json:"exh"` // include the exhaustive length sweeps
	Off   int      `json:"off"` // stream offset for random cases
}

var allTypes = []string{"transaction", "field", "user", "account", "filenamewithinfo", "infofork", "flatfile",
	"fileheader", "filepath", "resumedata", "newsartlist", "newsartlistdata", "newscat", "tracker", "serverrecord",
	"time", "handshake", "transfer", "decodeint", "newspath", "filelist", "trackeremit"}

func (prop) Plan(tier string, seed int64) []core.Batch {
	n := 120
	if tier == "thorough" {
		n = 4000
	}
	var bs []core.Batch
	for _, t := range allTypes {
		k := n
		if t == "account" {
			k = n / 6
		}
		a, _ := json.Marshal(args{Types: []string{t}, N: k, Exh: true})
		bs = append(bs, core.Batch{Name: t, Args: a, Timeout: 1500})
	}
	return bs
}

// object under test
type obj struct {
	typ     string
	desc    string
	lclass  string
	ref     []byte
	mk      func() io.Reader // fresh real encoder (nil = type has no streaming encoder)
	oneshot func() []byte    // real one-shot encoder (BinaryMarshal, NewTime, EncodeFilePath)
	decode  func() string    // feed ref to the real decoder, "" = ok
	nontriv bool
}

func lenClass(n int) string {
	switch {
	case n == 0:
		return "0"
	case n <= 2:
		return "1-2"
	case n < 255:
		return "3-254"
	case n == 255:
		return "255"
	case n <= 512:
		return "256-512"
	case n < 32768:
		return "513-32767"
	case n < 65533:
		return "32768-65532"
	default:
		return "65533-65535"
	}
}

func hexs(b []byte) string {
	if len(b) > 48 {
		return fmt.Sprintf("%x…(%d bytes)", b[:48], len(b))
	}
	return fmt.Sprintf("%x", b)
}

// drain reads r to the end with the given buffer sizes (cycled) honouring the io.Reader contract.
func drain(r io.Reader, sizes []int, refLen int) ([]byte, string) {
	var out []byte
	zero := 0
	limit := refLen + 16
	for calls := 0; ; calls++ {
		if calls > limit {
			return out, fmt.Sprintf("does not terminate: %d Read calls for %d reference bytes", calls, refLen)
		}
		sz := sizes[calls%len(sizes)]
		if sz < 1 {
			sz = 1
		}
		buf := make([]byte, sz)
		n, err := r.Read(buf)
		if n < 0 || n > sz {
			return out, fmt.Sprintf("Read returned n=%d for a %d-byte buffer", n, sz)
		}
		out = append(out, buf[:n]...)
		if len(out) > 2*refLen+64 {
			return out, fmt.Sprintf("does not terminate: emitted %d bytes for %d reference bytes", len(out), refLen)
		}
		if err == io.EOF {
			return out, ""
		}
		if err != nil {
			return out, "Read error: " + err.Error()
		}
		if n == 0 {
			zero++
			if zero >= 2 {
				return out, "does not terminate: two consecutive (0, nil) reads"
			}
		} else {
			zero = 0
		}
	}
}

type script struct {
	name  string
	sizes []int
}

func scripts(r *core.Rand, refLen int) []script {
	ss := []script{
		{"all-1", []int{1}}, {"all-2", []int{2}}, {"3", []int{3}}, {"7", []int{7}}, {"13", []int{13}},
		{"512", []int{512}}, {"32768", []int{32768}}, {"len", []int{max(refLen, 1)}}, {"len+1", []int{refLen + 1}},
	}
	if refLen > 1 {
		ss = append(ss, script{"len-1", []int{refLen - 1}})
	}
	var rnd []int
	for i := 0; i < 8; i++ {
		rnd = append(rnd, 1+r.Intn(40))
	}
	ss = append(ss, script{"rand", rnd})
	var rnd2 []int
	for i := 0; i < 5; i++ {
		rnd2 = append(rnd2, 1+r.Intn(max(refLen, 1)))
	}
	ss = append(ss, script{"rand-big", rnd2})
	if refLen > 4000 {
		// tiny buffers on very large objects are quadratic in the real encoders (each Read rebuilds the
		// whole encoding): keep the scripts with buffers >= 512 and the length-relative ones
		var keep []script
		for _, s := range ss {
			if s.sizes[0] >= 512 || s.name == "rand-big" {
				keep = append(keep, s)
			}
		}
		keep = append(keep, script{"1-then-4096", []int{1, 4096}})
		ss = keep
	}
	return ss
}

func checkObj(o obj, r *core.Rand, em *core.Emitter, caseID string) {
	em.Begin(caseID, map[string]any{"type": o.typ, "desc": o.desc})
	obs := map[string]int{"objects": 1}
	verdict := core.Held
	var key, msg string
	fail := func(k, m string) {
		if verdict == core.Held {
			verdict, key, msg = core.Violated, k, m
		}
	}
	if o.mk != nil {
		for _, sc := range scripts(r, len(o.ref)) {
			var got []byte
			var derr string
			if p := core.Guard(func() { got, derr = drain(o.mk(), sc.sizes, len(o.ref)) }); p != "" {
				fail("C01/"+o.typ+"/encode-panic", fmt.Sprintf("%s: encoder panicked under script %s: %s", o.desc, sc.name, p))
				break
			}
			obs["drains"]++
			if derr != "" {
				k := "encode-error"
				if strings.HasPrefix(derr, "does not terminate") {
					k = "nontermination"
				}
				fail("C01/"+o.typ+"/"+k, fmt.Sprintf("%s: script %s (sizes %v): %s", o.desc, sc.name, sc.sizes, derr))
				break
			}
			if !bytes.Equal(got, o.ref) {
				k := "wrong-bytes"
				if len(got) < len(o.ref) && bytes.Equal(got, o.ref[:len(got)]) {
					k = "truncated"
				}
				fail("C01/"+o.typ+"/"+k, fmt.Sprintf("%s: script %s (sizes %v): got %d bytes %s, reference %d bytes %s",
					o.desc, sc.name, sc.sizes, len(got), hexs(got), len(o.ref), hexs(o.ref)))
				break
			}
		}
	}
	if o.oneshot != nil {
		var got []byte
		if p := core.Guard(func() { got = o.oneshot() }); p != "" {
			fail("C01/"+o.typ+"/encode-panic", o.desc+": "+p)
		} else if !bytes.Equal(got, o.ref) {
			fail("C01/"+o.typ+"/wrong-bytes", fmt.Sprintf("%s: got %s, reference %s", o.desc, hexs(got), hexs(o.ref)))
		}
		obs["oneshots"]++
	}
	dec := "nodec"
	if o.decode != nil {
		var derr string
		if p := core.Guard(func() { derr = o.decode() }); p != "" {
			fail("C01/"+o.typ+"/decode-panic", fmt.Sprintf("%s: decoder panicked on reference bytes %s: %s", o.desc, hexs(o.ref), p))
		} else if strings.HasPrefix(derr, "INCONCLUSIVE") {
			if verdict == core.Held {
				verdict, msg = core.Inconclusive, o.desc+": "+derr
			}
		} else if derr != "" {
			fail("C01/"+o.typ+"/decode-mismatch", fmt.Sprintf("%s: decoding reference bytes %s: %s", o.desc, hexs(o.ref), derr))
		}
		obs["decodes"]++
		dec = "dec"
	}
	class := ""
	if o.nontriv {
		class = o.typ + "/" + o.lclass + "/" + dec
	}
	em.Emit(core.Result{Case: caseID, Class: class, Verdict: verdict, Key: key, Msg: msg, Obs: obs,
		Replay: map[string]any{"type": o.typ, "desc": o.desc, "ref": fmt.Sprintf("%x", o.ref)},
		Sample: map[string]any{"type": o.typ, "object": o.desc, "reference_bytes": hexs(o.ref)}})
}

func (prop) Run(b core.Batch, em *core.Emitter) {
	var a args
	json.Unmarshal(b.Args, &a)
	for _, t := range a.Types {
		r := core.NewRand(b.Seed, uint64(len(t)), uint64(t[0]), uint64(t[len(t)-1]))
		objs := generate(t, r, a.N, a.Exh)
		core.Parallel(len(objs), 16, func(i int) {
			cid := fmt.Sprintf("%s/%04d", t, i)
			rr := core.NewRand(b.Seed, uint64(i), 77)
			core.SafeCase(em, cid, func() { checkObj(objs[i], rr, em, cid) })
		})
	}
}

func (prop) Replay(payload json.RawMessage, em *core.Emitter) {
	// the replay payload names the type and the object description; regenerate by scanning the
	// deterministic generator for the same description
	var p struct {
		Type string `json:"type"`
		Desc string `json:"desc"`
	}
	json.Unmarshal(payload, &p)
	for _, seed := range []int64{core.Seed()} {
		r := core.NewRand(seed, uint64(len(p.Type)), uint64(p.Type[0]), uint64(p.Type[len(p.Type)-1]))
		for i, o := range generate(p.Type, r, 4000, true) {
			if o.desc == p.Desc {
				checkObj(o, core.NewRand(seed, uint64(i), 77), em, "replay")
				return
			}
		}
	}
	em.Emit(core.Result{Case: "replay", Verdict: core.Inconclusive, Msg: "object not regenerated (different seed?)"})
}

// ---------------------------------------------------------------------------------------------

var fieldSizes = []int{0, 1, 2, 255, 256, 511, 512, 513, 4095, 32767, 32768, 65532, 65533, 65534, 65535}

func name(r *core.Rand, n int) []byte {
	b := make([]byte, n)
	for i := range b {
		switch r.Intn(10) {
		case 0:
			b[i] = byte(0x80 + r.Intn(0x80)) // Mac-Roman high bytes
		case 1:
			b[i] = byte(r.Intn(256))
		default:
			b[i] = byte('a' + r.Intn(26))
		}
	}
	return b
}

func arr2(v int) (a [2]byte)    { binary.BigEndian.PutUint16(a[:], uint16(v)); return }
func arr4(v uint32) (a [4]byte) { binary.BigEndian.PutUint32(a[:], v); return }

func generate(t string, r *core.Rand, n int, exh bool) []obj {
	var out []obj
	add := func(o obj) { o.typ = t; out = append(out, o) }
	switch t {
	case "field":
		sizes := append([]int{}, fieldSizes...)
		for i := 0; i < n; i++ {
			sizes = append(sizes, r.Intn(70000)%65536)
		}
		for _, sz := range sizes {
			id := r.Intn(65536)
			data := r.Bytes(sz)
			add(genField(id, data))
		}
	case "transaction":
		for _, sz := range fieldSizes {
			add(genTran(r, []int{sz}))
		}
		for nf := 0; nf <= 64; nf++ {
			var ls []int
			for j := 0; j < nf; j++ {
				ls = append(ls, r.Intn(40))
			}
			add(genTran(r, ls))
		}
		for i := 0; i < n; i++ {
			nf := r.Intn(12)
			var ls []int
			for j := 0; j < nf; j++ {
				switch r.Intn(8) {
				case 0:
					ls = append(ls, core.Pick(r, fieldSizes))
				case 1:
					ls = append(ls, r.Intn(9000))
				default:
					ls = append(ls, r.Intn(300))
				}
			}
			add(genTran(r, ls))
		}
	case "user":
		lens := []int{}
		if exh {
			for l := 0; l <= 255; l++ {
				lens = append(lens, l)
			}
		}
		lens = append(lens, 256, 511, 512, 513, 1000, 4000)
		for i := 0; i < n/4; i++ {
			lens = append(lens, r.Intn(600))
		}
		for _, l := range lens {
			add(genUser(r, l))
		}
	case "account":
		lens := []int{0, 1, 2, 31, 32, 33, 255, 256, 600}
		for i := 0; i < n; i++ {
			lens = append(lens, r.Intn(300))
		}
		for _, l := range lens {
			add(genAccount(r, l))
		}
	case "filenamewithinfo":
		lens := []int{}
		if exh {
			for l := 0; l <= 255; l++ {
				lens = append(lens, l)
			}
		}
		lens = append(lens, 256, 512, 513)
		for i := 0; i < n/4; i++ {
			lens = append(lens, r.Intn(300))
		}
		for _, l := range lens {
			add(genFNWI(r, l))
		}
	case "infofork", "flatfile":
		type nc struct{ n, c int }
		var cs []nc
		if exh {
			for l := 0; l <= 255; l++ {
				cs = append(cs, nc{l, r.Intn(40)})
			}
		}
		for _, c := range []int{0, 1, 255, 256, 438, 439, 440, 512, 32767, 60000} {
			cs = append(cs, nc{1 + r.Intn(31), c})
		}
		for i := 0; i < n/2; i++ {
			cs = append(cs, nc{r.Intn(256), r.Intn(3000)})
		}
		for _, c := range cs {
			if t == "infofork" {
				add(genInfoFork(r, c.n, c.c))
			} else {
				add(genFlatFile(r, c.n, c.c))
			}
		}
	case "fileheader", "filepath":
		type pc struct{ lens []int }
		var cs []pc
		if exh {
			for l := 0; l <= 255; l++ {
				cs = append(cs, pc{[]int{l}})
				cs = append(cs, pc{[]int{1 + r.Intn(20), l}})
			}
		}
		for i := 0; i < n; i++ {
			k := 1 + r.Intn(8)
			var ls []int
			for j := 0; j < k; j++ {
				if r.Chance(1, 10) {
					ls = append(ls, 250+r.Intn(6))
				} else {
					ls = append(ls, 1+r.Intn(40))
				}
			}
			cs = append(cs, pc{ls})
		}
		if t == "filepath" {
			cs = append(cs, pc{[]int{}})
		}
		for _, c := range cs {
			if t == "fileheader" {
				if o, ok := genFileHeader(r, c.lens); ok {
					add(o)
				}
			} else {
				add(genFilePath(r, c.lens))
			}
		}
	case "resumedata":
		for nf := 0; nf <= 3; nf++ {
			for i := 0; i < 1+n/8; i++ {
				add(genResume(r, nf))
			}
		}
	case "newsartlist":
		type tp struct{ t, p int }
		var cs []tp
		if exh {
			for l := 0; l <= 255; l++ {
				cs = append(cs, tp{l, r.Intn(30)})
				cs = append(cs, tp{r.Intn(30), l})
			}
		}
		cs = append(cs, tp{255, 255}, tp{240, 240}, tp{236, 236}, tp{235, 235})
		for i := 0; i < n/2; i++ {
			cs = append(cs, tp{r.Intn(256), r.Intn(256)})
		}
		for _, c := range cs {
			add(genArtListEntry(r, c.t, c.p))
		}
	case "newsartlistdata":
		for i := 0; i < 40+n/2; i++ {
			k := r.Intn(12)
			if i < 10 {
				k = i
			}
			big := i%7 == 3
			add(genArtListData(r, k, big))
		}
	case "newscat":
		lens := []int{}
		if exh {
			for l := 0; l <= 255; l++ {
				lens = append(lens, l)
			}
		}
		for i := 0; i < n/4; i++ {
			lens = append(lens, r.Intn(256))
		}
		for i, l := range lens {
			add(genNewsCat(r, l, i%2 == 0))
		}
	case "tracker":
		type c3 struct{ a, b, c int }
		var cs []c3
		if exh {
			for l := 0; l <= 255; l++ {
				cs = append(cs, c3{l, r.Intn(20), r.Intn(10)}, c3{r.Intn(20), l, r.Intn(10)}, c3{r.Intn(20), r.Intn(20), l})
			}
		}
		cs = append(cs, c3{255, 255, 255})
		for i := 0; i < n/4; i++ {
			cs = append(cs, c3{r.Intn(256), r.Intn(256), r.Intn(256)})
		}
		for _, c := range cs {
			add(genTracker(r, c.a, c.b, c.c))
		}
	case "serverrecord":
		type c2 struct{ a, b int }
		var cs []c2
		if exh {
			for l := 0; l <= 255; l++ {
				cs = append(cs, c2{l, r.Intn(20)}, c2{r.Intn(20), l})
			}
		}
		cs = append(cs, c2{255, 255}, c2{0, 0})
		for _, c := range cs {
			add(genServerRecord(r, c.a, c.b))
		}
	case "time":
		for i := 0; i < 60+n; i++ {
			add(genTime(r, i))
		}
	case "handshake":
		for i := 0; i < 30+n/4; i++ {
			add(genHandshake(r, i))
		}
	case "transfer":
		for i := 0; i < 30+n/4; i++ {
			add(genTransfer(r, i))
		}
	case "decodeint":
		for i := 0; i < 40+n/4; i++ {
			add(genDecodeInt(r, i))
		}
	case "filelist":
		for i := 0; i < 12+n/10; i++ {
			add(genFileList(r, i))
		}
	case "trackeremit":
		for i := 0; i < 6+n/40; i++ {
			add(genTrackerEmit(r, i))
		}
	case "newspath":
		var cs [][]int
		cs = append(cs, []int{})
		if exh {
			for l := 0; l <= 255; l++ {
				cs = append(cs, []int{l}, []int{3, l})
			}
		}
		for i := 0; i < n/4; i++ {
			k := 1 + r.Intn(6)
			var ls []int
			for j := 0; j < k; j++ {
				ls = append(ls, 1+r.Intn(60))
			}
			cs = append(cs, ls)
		}
		for _, c := range cs {
			add(genNewsPath(r, c))
		}
	}
	return out
}

func genField(id int, data []byte) obj {
	ref := rc.F(id, data).Encode()
	return obj{
		desc: fmt.Sprintf("Field id=%d len=%d", id, len(data)), lclass: lenClass(len(data)), ref: ref, nontriv: true,
		mk: func() io.Reader { f := hotline.NewField(arr2(id), data); return &f },
		decode: func() string {
			var f hotline.Field
			n, err := f.Write(ref)
			if err != nil {
				return "Field.Write: " + err.Error()
			}
			if n != len(ref) {
				return fmt.Sprintf("Field.Write consumed %d of %d", n, len(ref))
			}
			if f.Type != arr2(id) || !bytes.Equal(f.Data, data) || f.FieldSize != arr2(len(data)) {
				return fmt.Sprintf("decoded field differs: type %x size %x data %s", f.Type, f.FieldSize, hexs(f.Data))
			}
			return ""
		},
	}
}

func genTran(r *core.Rand, lens []int) obj {
	t := rc.Tran{Flags: byte(r.Intn(256)), IsReply: byte(r.Intn(2)), Type: uint16(r.Intn(65536)), ID: uint32(r.Uint64()), Err: uint32(r.Uint64())}
	if r.Chance(1, 2) {
		t.Flags = 0
	}
	maxl := 0
	for _, l := range lens {
		t.Fields = append(t.Fields, rc.F(r.Intn(65536), r.Bytes(l)))
		if l > maxl {
			maxl = l
		}
	}
	ref := t.Encode()
	mkReal := func() hotline.Transaction {
		var fs []hotline.Field
		for _, f := range t.Fields {
			fs = append(fs, hotline.NewField(arr2(int(f.ID)), f.Data))
		}
		ht := hotline.NewTransaction(hotline.TranType(arr2(int(t.Type))), hotline.ClientID{0, 1}, fs...)
		ht.Flags, ht.IsReply, ht.ID, ht.ErrorCode = t.Flags, t.IsReply, arr4(t.ID), arr4(t.Err)
		return ht
	}
	return obj{
		desc:   fmt.Sprintf("Transaction type=%d flags=%d reply=%d id=%08x err=%08x fieldLens=%v", t.Type, t.Flags, t.IsReply, t.ID, t.Err, lens),
		lclass: fmt.Sprintf("nf%s/max%s", lenClass(len(lens)), lenClass(maxl)), ref: ref, nontriv: true,
		mk: func() io.Reader { ht := mkReal(); return &ht },
		decode: func() string {
			var ht hotline.Transaction
			n, err := ht.Write(ref)
			if err != nil {
				return "Transaction.Write: " + err.Error()
			}
			if n != len(ref) {
				return fmt.Sprintf("Transaction.Write consumed %d of %d", n, len(ref))
			}
			if ht.Flags != t.Flags || ht.IsReply != t.IsReply || ht.Type != hotline.TranType(arr2(int(t.Type))) || ht.ID != arr4(t.ID) || ht.ErrorCode != arr4(t.Err) {
				return "decoded header differs"
			}
			if len(ht.Fields) != len(t.Fields) {
				return fmt.Sprintf("decoded %d fields, want %d", len(ht.Fields), len(t.Fields))
			}
			for i, f := range t.Fields {
				if ht.Fields[i].Type != arr2(int(f.ID)) || !bytes.Equal(ht.Fields[i].Data, f.Data) {
					return fmt.Sprintf("decoded field %d differs", i)
				}
			}
			// re-encode the decoded transaction: must reproduce the bytes
			ht2 := ht
			back, err := io.ReadAll(&ht2)
			if err != nil || !bytes.Equal(back, ref) {
				return "re-encoding the decoded transaction does not reproduce the bytes"
			}
			return ""
		},
	}
}

func genUser(r *core.Rand, l int) obj {
	u := rc.User{ID: uint16(r.Intn(65536)), Icon: uint16(r.Intn(65536)), Flags: uint16(r.Intn(16)), Name: name(r, l)}
	ref := u.Encode()
	return obj{
		desc: fmt.Sprintf("User id=%d icon=%d flags=%d nameLen=%d", u.ID, u.Icon, u.Flags, l), lclass: lenClass(l), ref: ref, nontriv: true,
		mk: func() io.Reader {
			return &hotline.User{ID: arr2(int(u.ID)), Icon: rc.U16(int(u.Icon)), Flags: rc.U16(int(u.Flags)), Name: string(u.Name)}
		},
		decode: func() string {
			var hu hotline.User
			n, err := hu.Write(ref)
			if err != nil {
				return err.Error()
			}
			if n != len(ref) || hu.ID != arr2(int(u.ID)) || !bytes.Equal(hu.Icon, rc.U16(int(u.Icon))) || !bytes.Equal(hu.Flags, rc.U16(int(u.Flags))) || hu.Name != string(u.Name) {
				return fmt.Sprintf("decoded user differs: n=%d id=%x icon=%x flags=%x name=%q", n, hu.ID, hu.Icon, hu.Flags, hu.Name)
			}
			return ""
		},
	}
}

func genAccount(r *core.Rand, l int) obj {
	login := name(r, 1+l%40)
	nm := name(r, l)
	access := r.Bytes(8)
	pw := ""
	if r.Chance(2, 3) {
		pw = string(r.Printable(1 + r.Intn(12)))
	}
	fs := []rc.Field{rc.F(102, nm), rc.F(105, rc.Obfuscate(login)), rc.F(110, access)}
	if pw != "" {
		fs = append(fs, rc.FS(106, "x"))
	}
	ref := rc.SubFields(fs...)
	hash := fixture.HashPassword(pw)
	return obj{
		desc: fmt.Sprintf("Account loginLen=%d nameLen=%d access=%x hasPassword=%v", len(login), l, access, pw != ""), lclass: lenClass(l), ref: ref, nontriv: true,
		mk: func() io.Reader {
			var ab hotline.AccessBitmap
			copy(ab[:], access)
			return &hotline.Account{Login: string(login), Name: string(nm), Password: hash, Access: ab}
		},
	}
}

func genFNWI(r *core.Rand, l int) obj {
	e := rc.FileEntry{Size: uint32(r.Uint64()), Script: uint16(r.Intn(3)), Name: name(r, l)}
	copy(e.Type[:], r.Printable(4))
	copy(e.Creator[:], r.Printable(4))
	ref := e.Encode()
	return obj{
		desc: fmt.Sprintf("FileNameWithInfo type=%q creator=%q size=%d nameLen=%d", e.Type, e.Creator, e.Size, l), lclass: lenClass(l), ref: ref, nontriv: true,
		mk: func() io.Reader {
			f := &hotline.FileNameWithInfo{Name: e.Name}
			f.Type, f.Creator, f.FileSize, f.NameScript, f.NameSize = e.Type, e.Creator, arr4(e.Size), arr2(int(e.Script)), arr2(l)
			return f
		},
		decode: func() string {
			var f hotline.FileNameWithInfo
			n, err := f.Write(ref)
			if err != nil {
				return err.Error()
			}
			if n != len(ref) || f.Type != e.Type || f.Creator != e.Creator || f.FileSize != arr4(e.Size) || f.NameScript != arr2(int(e.Script)) || f.NameSize != arr2(l) || !bytes.Equal(f.Name, e.Name) {
				return "decoded FileNameWithInfo differs"
			}
			return ""
		},
	}
}

func mkInfo(r *core.Rand, nl, cl int) rc.InfoFork {
	var i rc.InfoFork
	copy(i.Platform[:], "AMAC")
	copy(i.Type[:], r.Printable(4))
	copy(i.Creator[:], r.Printable(4))
	copy(i.Flags[:], r.Bytes(4))
	copy(i.PlatFlags[:], []byte{0, 0, 1, 0})
	copy(i.Create[:], r.Bytes(8))
	copy(i.Modify[:], r.Bytes(8))
	i.NameScript = uint16(r.Intn(2))
	i.Name = name(r, nl)
	i.Comment = name(r, cl)
	return i
}

func realInfo(i rc.InfoFork) hotline.FlatFileInformationFork {
	f := hotline.FlatFileInformationFork{Platform: i.Platform, TypeSignature: i.Type, CreatorSignature: i.Creator, Flags: i.Flags,
		PlatformFlags: i.PlatFlags, CreateDate: i.Create, ModifyDate: i.Modify, NameScript: arr2(int(i.NameScript)), NameSize: arr2(len(i.Name)), Name: i.Name}
	f.SetComment(i.Comment)
	return f
}

func cmpInfo(f hotline.FlatFileInformationFork, i rc.InfoFork) string {
	if f.Platform != i.Platform || f.TypeSignature != i.Type || f.CreatorSignature != i.Creator || f.Flags != i.Flags || f.PlatformFlags != i.PlatFlags ||
		f.CreateDate != i.Create || f.ModifyDate != i.Modify || f.NameScript != arr2(int(i.NameScript)) || f.NameSize != arr2(len(i.Name)) {
		return "decoded info fork fixed fields differ"
	}
	if !bytes.Equal(f.Name, i.Name) {
		return fmt.Sprintf("decoded name %s != %s", hexs(f.Name), hexs(i.Name))
	}
	if !bytes.Equal(f.Comment, i.Comment) || f.CommentSize != arr2(len(i.Comment)) {
		return fmt.Sprintf("decoded comment (size %x) %s != %s", f.CommentSize, hexs(f.Comment), hexs(i.Comment))
	}
	return ""
}

func genInfoFork(r *core.Rand, nl, cl int) obj {
	i := mkInfo(r, nl, cl)
	ref := i.Encode()
	return obj{
		desc: fmt.Sprintf("InfoFork nameLen=%d commentLen=%d type=%q", nl, cl, i.Type), lclass: lenClass(nl) + "/" + lenClass(cl), ref: ref, nontriv: true,
		mk: func() io.Reader { f := realInfo(i); return &f },
		decode: func() string {
			var f hotline.FlatFileInformationFork
			if _, err := f.Write(append([]byte{}, ref...)); err != nil {
				return err.Error()
			}
			if s := cmpInfo(f, i); s != "" {
				return "Write: " + s
			}
			var g hotline.FlatFileInformationFork
			if err := g.UnmarshalBinary(append([]byte{}, ref...)); err != nil {
				return err.Error()
			}
			if s := cmpInfo(g, i); s != "" {
				return "UnmarshalBinary: " + s
			}
			return ""
		},
	}
}

func genFlatFile(r *core.Rand, nl, cl int) obj {
	i := mkInfo(r, nl, cl)
	ds := int(uint32(r.Uint64()))
	fc := 2 + r.Intn(2)
	ref := rc.FlatHeader(i, ds, fc)
	mk := func() *hotline.VerifFlattenedFileObject {
		f := &hotline.VerifFlattenedFileObject{}
		f.FlatFileHeader = hotline.FlatFileHeader{Format: [4]byte{'F', 'I', 'L', 'P'}, Version: [2]byte{0, 1}, ForkCount: arr2(fc)}
		f.FlatFileInformationFork = realInfo(i)
		f.FlatFileInformationForkHeader = hotline.FlatFileForkHeader{ForkType: [4]byte{'I', 'N', 'F', 'O'}, DataSize: f.FlatFileInformationFork.Size()}
		f.FlatFileDataForkHeader = hotline.FlatFileForkHeader{ForkType: [4]byte{'D', 'A', 'T', 'A'}, DataSize: arr4(uint32(ds))}
		return f
	}
	return obj{
		desc: fmt.Sprintf("FlattenedFile nameLen=%d commentLen=%d dataSize=%d forkCount=%d", nl, cl, ds, fc), lclass: lenClass(nl) + "/" + lenClass(cl), ref: ref, nontriv: true,
		mk: func() io.Reader { return mk() },
		decode: func() string {
			var f hotline.VerifFlattenedFileObject
			rd := bytes.NewReader(ref)
			if _, err := f.ReadFrom(rd); err != nil {
				return "ReadFrom: " + err.Error()
			}
			if rd.Len() != 0 {
				return fmt.Sprintf("ReadFrom left %d bytes unread", rd.Len())
			}
			if f.FlatFileHeader.Format != [4]byte{'F', 'I', 'L', 'P'} || f.FlatFileHeader.ForkCount != arr2(fc) {
				return "decoded FILP header differs"
			}
			if f.FlatFileInformationForkHeader.DataSize != arr4(uint32(len(i.Encode()))) {
				return "decoded INFO fork header size differs"
			}
			if f.FlatFileDataForkHeader.DataSize != arr4(uint32(ds)) || f.FlatFileDataForkHeader.ForkType != [4]byte{'D', 'A', 'T', 'A'} {
				return "decoded DATA fork header differs"
			}
			if s := cmpInfo(f.FlatFileInformationFork, i); s != "" {
				return s
			}
			// transfer size = header + data (+ resource fork 0)
			g := mk()
			ts := binary.BigEndian.Uint32(g.TransferSize(0))
			if ts != uint32(len(ref))+uint32(ds) {
				return fmt.Sprintf("TransferSize(0)=%d, header %d + data %d", ts, len(ref), ds)
			}
			return ""
		},
	}
}

func pathItems(r *core.Rand, lens []int) [][]byte {
	var items [][]byte
	for _, l := range lens {
		b := name(r, l)
		for i := range b {
			if b[i] == '/' {
				b[i] = '_'
			}
		}
		items = append(items, b)
	}
	return items
}

func genFileHeader(r *core.Rand, lens []int) (obj, bool) {
	for _, l := range lens {
		if l == 0 {
			return obj{}, false // an empty path segment cannot be expressed in the slash-joined argument
		}
	}
	items := pathItems(r, lens)
	isDir := r.Bool()
	ref := rc.FolderItem(isDir, items...)
	var parts []string
	for _, it := range items {
		parts = append(parts, string(it))
	}
	p := strings.Join(parts, "/")
	mx := 0
	for _, l := range lens {
		mx = max(mx, l)
	}
	return obj{
		desc: fmt.Sprintf("FileHeader isDir=%v itemLens=%v", isDir, lens), lclass: fmt.Sprintf("n%d/%s", min(len(lens), 3), lenClass(mx)), ref: ref, nontriv: true,
		mk: func() io.Reader { fh := hotline.NewFileHeader(p, isDir); return &fh },
		decode: func() string {
			// the path part must decode with the real FilePath decoder
			var fp hotline.FilePath
			if _, err := fp.Write(append([]byte{}, ref[4:]...)); err != nil {
				return "FilePath.Write: " + err.Error()
			}
			if len(fp.Items) != len(items) {
				return fmt.Sprintf("decoded %d items, want %d", len(fp.Items), len(items))
			}
			for i := range items {
				if !bytes.Equal(fp.Items[i].Name, items[i]) {
					return fmt.Sprintf("decoded item %d = %s, want %s", i, hexs(fp.Items[i].Name), hexs(items[i]))
				}
			}
			return ""
		},
	}, true
}

func genFilePath(r *core.Rand, lens []int) obj {
	items := pathItems(r, lens)
	ref := rc.Path(items...)
	mx := 0
	for _, l := range lens {
		mx = max(mx, l)
	}
	o := obj{
		desc: fmt.Sprintf("FilePath itemLens=%v", lens), lclass: fmt.Sprintf("n%d/%s", min(len(lens), 3), lenClass(mx)), ref: ref, nontriv: len(lens) > 0,
		decode: func() string {
			var fp hotline.FilePath
			if _, err := fp.Write(append([]byte{}, ref...)); err != nil {
				return "FilePath.Write: " + err.Error()
			}
			if int(fp.Len()) != len(items) || len(fp.Items) != len(items) {
				return fmt.Sprintf("decoded %d items (count %d), want %d", len(fp.Items), fp.Len(), len(items))
			}
			for i := range items {
				if !bytes.Equal(fp.Items[i].Name, items[i]) || int(fp.Items[i].Len) != len(items[i]) {
					return fmt.Sprintf("decoded item %d = %s (len %d), want %s", i, hexs(fp.Items[i].Name), fp.Items[i].Len, hexs(items[i]))
				}
			}
			return ""
		},
	}
	ok := len(lens) > 0
	for _, l := range lens {
		if l == 0 {
			ok = false
		}
	}
	if ok {
		var parts []string
		for _, it := range items {
			parts = append(parts, string(it))
		}
		p := strings.Join(parts, "/")
		o.oneshot = func() []byte { return hotline.EncodeFilePath(p) }
	}
	return o
}

func genResume(r *core.Rand, nf int) obj {
	var forks []rc.Fork
	for i := 0; i < nf; i++ {
		f := rc.DataFork(int(uint32(r.Uint64())))
		if i == 1 {
			f = rc.RsrcFork(int(uint32(r.Uint64())))
		}
		if i == 2 {
			copy(f.Type[:], "INFO")
		}
		forks = append(forks, f)
	}
	ref := rc.ResumeData(forks...)
	return obj{
		desc: fmt.Sprintf("FileResumeData forks=%v", forks), lclass: fmt.Sprintf("forks%d", nf), ref: ref, nontriv: nf > 0,
		oneshot: func() []byte {
			var l []hotline.ForkInfoList
			for _, f := range forks {
				l = append(l, hotline.ForkInfoList{Fork: f.Type, DataSize: arr4(f.Size)})
			}
			b, _ := hotline.NewFileResumeData(l).BinaryMarshal()
			return b
		},
		decode: func() string {
			var frd hotline.FileResumeData
			if err := frd.UnmarshalBinary(ref); err != nil {
				return err.Error()
			}
			if frd.Format != [4]byte{'R', 'F', 'L', 'T'} || frd.Version != [2]byte{0, 1} || frd.ForkCount != arr2(nf) || len(frd.ForkInfoList) != nf {
				return fmt.Sprintf("decoded resume data header differs: %q %x %x n=%d", frd.Format, frd.Version, frd.ForkCount, len(frd.ForkInfoList))
			}
			for i, f := range forks {
				if frd.ForkInfoList[i].Fork != f.Type || frd.ForkInfoList[i].DataSize != arr4(f.Size) {
					return fmt.Sprintf("decoded fork %d differs", i)
				}
			}
			return ""
		},
	}
}

func mkEntry(r *core.Rand, id uint32, tl, pl int) (rc.ArtListEntry, int) {
	e := rc.ArtListEntry{ID: id, Parent: uint32(r.Intn(50)), Title: name(r, tl), Poster: name(r, pl), Flavor: []byte("text/plain")}
	copy(e.Date[:], r.Bytes(8))
	dl := r.Intn(3000)
	e.Size = uint16(dl)
	return e, dl
}

func genArtListEntry(r *core.Rand, tl, pl int) obj {
	e, _ := mkEntry(r, uint32(r.Uint64()), tl, pl)
	ref := e.Encode()
	return obj{
		desc: fmt.Sprintf("NewsArtList(entry) id=%d titleLen=%d posterLen=%d", e.ID, tl, pl), lclass: lenClass(tl) + "/" + lenClass(pl), ref: ref, nontriv: true,
		mk: func() io.Reader {
			return &hotline.NewsArtList{ID: arr4(e.ID), TimeStamp: e.Date, ParentID: arr4(e.Parent), Title: e.Title, Poster: e.Poster, ArticleSize: arr2(int(e.Size))}
		},
	}
}

func genArtListData(r *core.Rand, k int, big bool) obj {
	arts := map[uint32]*hotline.NewsArtData{}
	var entries []rc.ArtListEntry
	ids := map[uint32]bool{}
	mx := 0
	for len(ids) < k {
		id := uint32(1 + r.Intn(400))
		if ids[id] {
			continue
		}
		ids[id] = true
		tl, pl := r.Intn(60), r.Intn(30)
		if big {
			tl, pl = 200+r.Intn(56), 200+r.Intn(56)
		}
		mx = max(mx, tl+pl)
		e, dl := mkEntry(r, id, tl, pl)
		entries = append(entries, e)
		arts[id] = &hotline.NewsArtData{Title: string(e.Title), Poster: string(e.Poster), Date: e.Date, ParentArt: arr4(e.Parent), Data: string(r.Printable(dl))}
	}
	sort.Slice(entries, func(i, j int) bool { return entries[i].ID < entries[j].ID })
	ref := rc.ArtList{Entries: entries}.Encode()
	return obj{
		desc: fmt.Sprintf("NewsArtListData articles=%d maxTitle+Poster=%d", k, mx), lclass: fmt.Sprintf("n%s/%s", lenClass(k), lenClass(mx)), ref: ref, nontriv: k > 0,
		mk: func() io.Reader {
			cat := hotline.NewsCategoryListData15{Type: hotline.NewsCategory, Name: "c", Articles: arts}
			d := cat.GetNewsArtListData()
			return &d
		},
	}
}

func genNewsCat(r *core.Rand, l int, isCat bool) obj {
	c := rc.CatItem{Type: 2, Name: name(r, l)}
	hc := hotline.NewsCategoryListData15{Type: hotline.NewsBundle, Name: string(c.Name)}
	n1, n2 := r.Intn(5), r.Intn(5)
	if isCat {
		c.Type = 3
		hc.Type = hotline.NewsCategory
		n2 = 0
	} else {
		n1 = 0
	}
	hc.Articles = map[uint32]*hotline.NewsArtData{}
	hc.SubCats = map[string]hotline.NewsCategoryListData15{}
	for i := 0; i < n1; i++ {
		hc.Articles[uint32(i+1)] = &hotline.NewsArtData{}
	}
	for i := 0; i < n2; i++ {
		hc.SubCats[fmt.Sprint(i)] = hotline.NewsCategoryListData15{}
	}
	c.Count = uint16(n1 + n2)
	ref := c.Encode()
	return obj{
		desc: fmt.Sprintf("NewsCategoryListData15 type=%d count=%d nameLen=%d", c.Type, c.Count, l), lclass: fmt.Sprintf("t%d/%s", c.Type, lenClass(l)), ref: ref, nontriv: true,
		mk: func() io.Reader { x := hc; return &x },
	}
}

func genTracker(r *core.Rand, a, b, c int) obj {
	var pid [4]byte
	copy(pid[:], r.Bytes(4))
	port, users := r.Intn(65536), r.Intn(65536)
	nm, ds, pw := name(r, a), name(r, b), name(r, c)
	ref := rc.TrackerRegistration(port, users, pid, nm, ds, pw)
	return obj{
		desc: fmt.Sprintf("TrackerRegistration port=%d users=%d nameLen=%d descLen=%d passLen=%d", port, users, a, b, c), lclass: lenClass(a) + "/" + lenClass(b) + "/" + lenClass(c), ref: ref, nontriv: true,
		mk: func() io.Reader {
			return &hotline.TrackerRegistration{Port: arr2(port), UserCount: users, PassID: pid, Name: string(nm), Description: string(ds), Password: string(pw)}
		},
	}
}

func genServerRecord(r *core.Rand, a, b int) obj {
	var ip [4]byte
	copy(ip[:], r.Bytes(4))
	port, users := r.Intn(65536), r.Intn(65536)
	nm, ds := name(r, a), name(r, b)
	ref := rc.ServerRecord(ip, port, users, nm, ds)
	return obj{
		desc: fmt.Sprintf("ServerRecord nameLen=%d descLen=%d", a, b), lclass: lenClass(a) + "/" + lenClass(b), ref: ref, nontriv: true,
		decode: func() string {
			var s hotline.ServerRecord
			n, err := s.Write(append([]byte{}, ref...))
			if err != nil {
				if len(ref) < 13 {
					return "" // the decoder documents a 13-byte minimum; a 12-byte record (empty name and description) is rejected, not mis-decoded
				}
				return err.Error()
			}
			if n != len(ref) || s.IPAddr != ip || s.Port != arr2(port) || s.NumUsers != arr2(users) || !bytes.Equal(s.Name, nm) || !bytes.Equal(s.Description, ds) {
				return "decoded server record differs"
			}
			return ""
		},
	}
}

func genTime(r *core.Rand, i int) obj {
	year := 1904 + r.Intn(250)
	t := time.Date(year, time.Month(1+r.Intn(12)), 1+r.Intn(28), r.Intn(24), r.Intn(60), r.Intn(60), r.Intn(1e9), time.Local)
	if i == 0 {
		t = time.Date(2024, 1, 1, 0, 0, 0, 0, time.Local)
	}
	if i == 1 {
		t = time.Date(2024, 12, 31, 23, 59, 59, 999999999, time.Local)
	}
	secs := int(t.Sub(time.Date(t.Year(), 1, 1, 0, 0, 0, 0, time.Local)) / time.Second)
	ref := rc.Date(t.Year(), 0, secs)
	return obj{
		desc: "Time " + t.Format(time.RFC3339Nano), lclass: fmt.Sprintf("m%d", t.Month()), ref: ref, nontriv: true,
		oneshot: func() []byte { x := hotline.NewTime(t); return x[:] },
	}
}

func genHandshake(r *core.Rand, i int) obj {
	ref := rc.Handshake()
	if i > 0 {
		ref = append([]byte("TRTPHOTL"), r.Bytes(4)...)
	}
	if i%5 == 4 {
		ref = r.Bytes(12)
	}
	return obj{
		desc: fmt.Sprintf("handshake %x", ref), lclass: fmt.Sprintf("k%d", min(i, 5)%5), ref: ref, nontriv: true,
		decode: func() string {
			var h hotline.VerifHandshake
			n, err := h.Write(ref)
			if err != nil || n != 12 {
				return fmt.Sprintf("handshake.Write: n=%d err=%v", n, err)
			}
			if !bytes.Equal(h.Protocol[:], ref[0:4]) || !bytes.Equal(h.SubProtocol[:], ref[4:8]) || !bytes.Equal(h.Version[:], ref[8:10]) || !bytes.Equal(h.SubVersion[:], ref[10:12]) {
				return "decoded handshake differs"
			}
			want := string(ref[0:8]) == "TRTPHOTL"
			if h.Valid() != want {
				return fmt.Sprintf("Valid()=%v, want %v", h.Valid(), want)
			}
			return ""
		},
	}
}

func genTransfer(r *core.Rand, i int) obj {
	refnum := r.Bytes(4)
	size := int(uint32(r.Uint64()))
	ref := rc.Preamble(refnum, size)
	return obj{
		desc: fmt.Sprintf("transfer preamble ref=%x size=%d", refnum, size), lclass: fmt.Sprintf("k%d", i%3), ref: ref, nontriv: true,
		decode: func() string {
			var t hotline.VerifTransfer
			n, err := t.Write(ref)
			if err != nil || n != 16 {
				return fmt.Sprintf("transfer.Write: n=%d err=%v", n, err)
			}
			if t.Protocol != [4]byte{'H', 'T', 'X', 'F'} || !bytes.Equal(t.ReferenceNumber[:], refnum) || t.DataSize != arr4(uint32(size)) {
				return "decoded preamble differs"
			}
			return ""
		},
	}
}

func genDecodeInt(r *core.Rand, i int) obj {
	v := int(uint32(r.Uint64()))
	two := i%2 == 0
	if two {
		v &= 0xffff
	}
	ref := rc.U32(v)
	if two {
		ref = rc.U16(v)
	}
	return obj{
		desc: fmt.Sprintf("integer field %d in %d bytes", v, len(ref)), lclass: fmt.Sprintf("w%d", len(ref)), ref: ref, nontriv: true,
		decode: func() string {
			f := hotline.NewField([2]byte{0, 1}, ref)
			got, err := f.DecodeInt()
			if err != nil || got != v {
				return fmt.Sprintf("DecodeInt=%d err=%v want %d", got, err, v)
			}
			return ""
		},
	}
}

func genNewsPath(r *core.Rand, lens []int) obj {
	items := pathItems(r, lens)
	ref := rc.Path(items...)
	mx := 0
	for _, l := range lens {
		mx = max(mx, l)
	}
	return obj{
		desc: fmt.Sprintf("NewsPath itemLens=%v", lens), lclass: fmt.Sprintf("n%d/%s", min(len(lens), 3), lenClass(mx)), ref: ref, nontriv: len(lens) > 0,
		decode: func() string {
			f := hotline.NewField([2]byte{1, 0x45}, ref)
			got, err := f.DecodeNewsPath()
			if err != nil {
				return err.Error()
			}
			if len(got) != len(items) {
				return fmt.Sprintf("decoded %d items want %d", len(got), len(items))
			}
			for i := range items {
				if got[i] != string(items[i]) {
					return fmt.Sprintf("decoded item %d = %q want %q", i, got[i], items[i])
				}
			}
			return ""
		},
	}
}

// genFileList: the list records as the real listing function emits them for a directory whose names need the
// Mac-Roman conversion; every record must decode strictly (name length = bytes that follow) to the converted name.
func genFileList(r *core.Rand, i int) obj {
	dir, _ := os.MkdirTemp(core.ScratchDir(), "c01list-")
	pool := []string{"café.txt", "über ™ grüße", "naïve.sit", "plain.txt", "Ærø", "π-notes", "ƒolder", "x", "résumé final.pdf", "©opy", "a–b—c", "ÿ.zip"}
	want := map[string]int{}
	k := 1 + r.Intn(6)
	for j := 0; j < k; j++ {
		name := core.Pick(r, pool)
		if r.Bool() {
			name = fmt.Sprintf("%d %s", j, name)
		}
		if _, dup := want[name]; dup {
			continue
		}
		sz := r.Intn(3000)
		if r.Chance(1, 5) {
			// a partial upload: on disk "<name>.incomplete", listed under its final name
			os.WriteFile(filepath.Join(dir, name+".incomplete"), r.Bytes(sz), 0644)
			want[name] = sz
		} else if r.Chance(1, 4) {
			os.MkdirAll(filepath.Join(dir, name), 0755)
			want[name] = -1
		} else {
			os.WriteFile(filepath.Join(dir, name), r.Bytes(sz), 0644)
			want[name] = sz
		}
	}
	return obj{
		desc: fmt.Sprintf("file list of a directory with %d entries %v", len(want), keysOf(want)), lclass: fmt.Sprintf("n%d", len(want)), ref: nil, nontriv: true,
		decode: func() string {
			defer os.RemoveAll(dir)
			fields, err := hotline.GetFileNameList(dir, []string{`^\.`})
			if err != nil {
				return "GetFileNameList: " + err.Error()
			}
			if len(fields) != len(want) {
				return fmt.Sprintf("%d records for %d entries", len(fields), len(want))
			}
			for _, f := range fields {
				fe, err := rc.DecodeFileEntry(f.Data)
				if err != nil {
					return fmt.Sprintf("list record %x does not decode: %v", f.Data, err)
				}
				disk := macToUTF8(fe.Name)
				sz, ok := want[disk]
				if !ok {
					return fmt.Sprintf("record name %q (UTF-8 %q) is not an entry of the directory", fe.Name, disk)
				}
				if sz >= 0 && int(fe.Size) != sz {
					return fmt.Sprintf("record %q announces size %d, file has %d", disk, fe.Size, sz)
				}
				if sz < 0 && string(fe.Type[:]) != "fldr" {
					return fmt.Sprintf("folder %q listed with type %q", disk, fe.Type)
				}
			}
			return ""
		},
	}
}

// ---- tracker registration as the server emits it ----

// The periodic registration goroutine is the only place where the library itself serialises a TrackerRegistration.
// A case configures 1-4 trackers (UDP sockets on loopback owned by the harness), starts the real goroutine and, once
// that goroutine has gone to sleep until its next round (read off the goroutine dump: no wall-clock verdict), demands
// that every socket holds exactly one datagram equal to the reference encoding.  The goroutines cannot be stopped
// (they sleep 300 s and ignore their context), so the cases run one at a time and count sleepers.
var trackerEmitMu sync.Mutex
var trackerSleepers int

func sleepingRegistrars() int {
	buf := make([]byte, 1<<20)
	for {
		n := runtime.Stack(buf, true)
		if n < len(buf) {
			buf = buf[:n]
			break
		}
		buf = make([]byte, 2*len(buf))
	}
	k := 0
	for _, g := range strings.Split(string(buf), "\n\n") {
		if strings.Contains(g, ").registerWithTrackers(") && strings.Contains(g, "time.Sleep(") {
			k++
		}
	}
	return k
}

func genTrackerEmit(r *core.Rand, i int) obj {
	nl, dl := r.Intn(256), r.Intn(256)
	if i%3 == 0 {
		nl, dl = core.Pick(r, []int{0, 1, 254, 255}), core.Pick(r, []int{0, 1, 254, 255})
	}
	nm, ds := name(r, nl), name(r, dl)
	port := 1 + r.Intn(65535)
	k := 1 + i%4
	users := r.Intn(3)
	return obj{
		typ:  "trackeremit",
		desc: fmt.Sprintf("registration round with %d trackers, port=%d nameLen=%d descLen=%d users=%d #%d", k, port, nl, dl, users, i), lclass: fmt.Sprintf("k%d/%s/%s", k, lenClass(nl), lenClass(dl)), nontriv: true,
		decode: func() string {
			trackerEmitMu.Lock()
			defer trackerEmitMu.Unlock()
			srv, err := fixture.New(fixture.Options{})
			if err != nil {
				return "INCONCLUSIVE fixture: " + err.Error()
			}
			defer srv.Close()
			for u := 0; u < users; u++ {
				if _, err := refclient.LoginAs(srv, fmt.Sprintf("10.1.0.%d:4000", u+1), "guest", "", fmt.Sprintf("u%d", u)); err != nil {
					return "INCONCLUSIVE login: " + err.Error()
				}
			}
			srv.Quiesce(refclient.Watchdog)
			var socks []*net.UDPConn
			var addrs []string
			for j := 0; j < k; j++ {
				c, err := net.ListenUDP("udp4", &net.UDPAddr{IP: net.IPv4(127, 0, 0, 1)})
				if err != nil {
					return "INCONCLUSIVE udp socket: " + err.Error()
				}
				defer c.Close()
				socks = append(socks, c)
				addrs = append(addrs, c.LocalAddr().String())
			}
			srv.S.Config.Name, srv.S.Config.Description = string(nm), string(ds)
			srv.S.Config.Trackers, srv.S.Config.EnableTrackerRegistration = addrs, true
			srv.S.Port = port
			ref := rc.TrackerRegistration(port, users, srv.S.TrackerPassID, nm, ds, nil)
			base := sleepingRegistrars()
			go srv.S.VerifRegisterWithTrackers(context.Background())
			deadline := time.Now().Add(refclient.Watchdog)
			for sleepingRegistrars() <= base {
				if time.Now().After(deadline) {
					return "INCONCLUSIVE the registration goroutine did not finish its round within the watchdog"
				}
				time.Sleep(2 * time.Millisecond)
			}
			// the round is over: whatever was sent sits in the sockets' buffers (loopback UDP is delivered by sendto)
			for j, c := range socks {
				var got [][]byte
				for {
					buf := make([]byte, 2048)
					c.SetReadDeadline(time.Now().Add(30 * time.Millisecond))
					n, _, err := c.ReadFromUDP(buf)
					if err != nil {
						break
					}
					got = append(got, buf[:n])
				}
				if len(got) != 1 {
					return fmt.Sprintf("tracker %d of %d received %d datagrams in one registration round (the registering goroutine sleeps until the next round)", j+1, k, len(got))
				}
				if !bytes.Equal(got[0], ref) {
					return fmt.Sprintf("tracker %d of %d received %s, reference %s", j+1, k, hexs(got[0]), hexs(ref))
				}
			}
			return ""
		},
	}
}

func keysOf(m map[string]int) []string {
	var ks []string
	for k := range m {
		ks = append(ks, k)
	}
	sort.Strings(ks)
	return ks
}

func macToUTF8(b []byte) string {
	s, _ := charmap.Macintosh.NewDecoder().Bytes(b)
	return string(s)
}
