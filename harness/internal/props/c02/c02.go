// Package c02: segmentation-independent parsing of client byte streams.
package c02

import (
	"bytes"
	"fmt"
	"os"
	"path/filepath"
	"sort"
	"strings"
	"time"

	"verifharness/internal/core"
	"verifharness/internal/fixture"
	"verifharness/internal/refclient"
	rc "verifharness/internal/refcodec"
	"verifharness/internal/transport"
	"verifharness/internal/xfer"
)

func init() {
	core.Register(&core.Simple{
		Id: "C02", Lvl: "exploration", Quick: 420, Thorough: 14000, PerBatch: 140, Width: 140, Timeout: 2400,
		RuleText: "each case builds one well-formed client session as a byte stream — control (handshake + login + 8-20 pipelined requests of ~25 kinds, payloads from empty to 60 KiB), download, upload (with/without resource fork), folder download (with an action script of send / skip / resume-with-resume-record) or folder upload (in half of them onto a partial left by an interrupted earlier upload, i.e. through the resume branch) — and delivers the same bytes to identical fresh servers under a baseline (one segment) and 6-8 other partitions: 1-byte, fixed k in {2,3,5,11,12,13,16,20,22,23}, a single cut at position p (p sweeps 1..64 across the cases of a run), cuts at -1/0/+1 around a structural boundary (handshake end, transaction and field headers, preamble, FILP/fork/item headers), and seeded random partitions; outcomes compared: normalised multiset of transactions written back (server-chosen ids, reference numbers, chat ids, dates and password hashes blanked), the observer's inbox, a snapshot of config dir + file root, and for transfers the bytes written and files created. distinct = (session kind, partition class); non-trivial = every variant",
		Case:     runCase,
	})
}

type outcome struct {
	frames   []string
	observer []string
	snap     map[string]string
	raw      []byte
	note     string
}

func normTran(t rc.Tran) string {
	if t.IsReply == 0 {
		t.ID = 0
	}
	var fs []rc.Field
	for _, f := range t.Fields {
		switch f.ID {
		case 107, 114, 208, 209, 106:
			f.Data = bytes.Repeat([]byte{0}, len(f.Data))
		}
		fs = append(fs, f)
	}
	// replies built from Go maps (account list) carry their fields in varying order: compare as a multiset
	sort.Slice(fs, func(i, j int) bool {
		if fs[i].ID != fs[j].ID {
			return fs[i].ID < fs[j].ID
		}
		return bytes.Compare(fs[i].Data, fs[j].Data) < 0
	})
	t.Fields = fs
	return fmt.Sprintf("%x", t.Encode())
}

func normSnap(m map[string]string) map[string]string {
	out := map[string]string{}
	for k, v := range m {
		if strings.HasPrefix(k, "config/Users/") {
			v = "f" // bcrypt salts differ between runs
		}
		if strings.Contains(k, ".info_") && strings.HasPrefix(v, "f:") {
			v = strings.Join(strings.Split(v, ":")[:2], ":") // info forks embed file dates: keep the size only
		}
		out[k] = v
	}
	return out
}

func files(root string) {
	fixture.WriteFile(root+"/alpha.txt", strings.Repeat("alpha", 200))
	fixture.WriteFile(root+"/beta.bin", strings.Repeat("\x00\x01\x02", 3000))
	fixture.WriteFile(root+"/dir/inner.txt", "inner")
	fixture.WriteFile(root+"/dir/sub/deep.txt", strings.Repeat("deep", 50))
	fixture.WriteFile(root+"/dir/.hidden", "h")
	os.MkdirAll(root+"/Uploads", 0755)
	os.MkdirAll(root+"/emptydir", 0755)
}

func newServer() (*fixture.Server, error) {
	return fixture.New(fixture.Options{Agreement: "the agreement\r", Board: strings.Repeat("board line\r", 300), Files: files, PreserveForks: true, // uploaded information and resource forks are stored, so that they are part of the compared outcome
		NewsYAML: "Categories:\n  cat:\n    Type: [0, 3]\n    Name: cat\n    Articles: {}\n    SubCats: {}\n"})
}

// ---- control sessions ----

type ctlSession struct {
	stream     []byte
	boundaries []int
	desc       []string
}

func buildControl(r *core.Rand) ctlSession {
	var s ctlSession
	add := func(b []byte, what string) {
		s.boundaries = append(s.boundaries, len(s.stream))
		s.stream = append(s.stream, b...)
		s.desc = append(s.desc, what)
	}
	add(rc.Handshake(), "handshake")
	id := uint32(1)
	tran := func(typ int, fs ...rc.Field) {
		t := rc.Tran{Type: uint16(typ), ID: id, Fields: fs}
		id++
		b := t.Encode()
		start := len(s.stream)
		// structural boundaries inside the frame: header end (20), field count end (22), each field header
		s.boundaries = append(s.boundaries, start+20, start+22)
		off := start + 22
		for _, f := range fs {
			s.boundaries = append(s.boundaries, off, off+4)
			off += 4 + len(f.Data)
		}
		add(b, fmt.Sprintf("%d", typ))
	}
	name := "Seg Tester"
	tran(107, rc.F(105, rc.Obfuscate([]byte("admin"))), rc.F(106, nil), rc.FS(102, name), rc.F(104, rc.U16(7)), rc.F(160, rc.U16(190)))
	kinds := []func(){
		func() { tran(300) },
		func() { tran(101) },
		func() { tran(200) },
		func() { tran(200, rc.F(202, rc.PathS("dir"))) },
		func() { tran(206, rc.FS(201, "alpha.txt")) },
		func() { tran(105, rc.FS(101, "hello everybody")) },
		func() { tran(105, rc.F(101, r.Printable(9000))) },
		func() { tran(105, rc.F(101, r.Printable(60000))) },
		func() { tran(205, rc.FS(201, "nf"+fmt.Sprint(r.Intn(1000)))) },
		func() { tran(207, rc.FS(201, "alpha.txt"), rc.FS(210, "a comment")) },
		func() { tran(207, rc.FS(201, "beta.bin"), rc.FS(211, "beta-renamed.bin")) },
		func() { tran(204, rc.FS(201, "inner.txt"), rc.F(202, rc.PathS("dir"))) },
		func() { tran(103, rc.F(101, r.Printable(1+r.Intn(300)))) },
		func() { tran(370) },
		func() { tran(382, rc.FS(322, "c"+fmt.Sprint(r.Intn(1000)))) },
		func() { tran(381, rc.FS(201, "b"+fmt.Sprint(r.Intn(1000)))) },
		func() {
			tran(350, rc.F(105, rc.Obfuscate([]byte("u"+fmt.Sprint(r.Intn(1000))))), rc.FS(102, "U"), rc.F(106, rc.Obfuscate([]byte("pw"))), rc.F(110, rc.Bitmap(2, 9)))
		},
		func() { tran(352, rc.FS(105, "guest")) },
		func() { tran(348) },
		func() { tran(500) },
		func() { tran(202, rc.FS(201, "alpha.txt")) },
		func() { tran(203, rc.FS(201, "new-upload.bin"), rc.F(202, rc.PathS("Uploads")), rc.F(108, rc.U32(10))) },
		func() { tran(304, rc.FS(102, "Renamed Tester"), rc.F(104, rc.U16(9)), rc.F(113, rc.U16(3))) },
		func() { tran(355, rc.FS(101, "broadcast text")) },
		func() { tran(208, rc.FS(201, "alpha.txt"), rc.F(212, rc.PathS("emptydir"))) },
		func() { tran(210, rc.FS(201, "dir")) },
		func() { tran(121, rc.FS(102, name), rc.F(104, rc.U16(7)), rc.F(113, rc.U16(0))) },
	}
	n := 8 + r.Intn(13)
	for i := 0; i < n; i++ {
		core.Pick(r, kinds)()
	}
	s.boundaries = append(s.boundaries, len(s.stream))
	return s
}

func runControl(stream []byte, segs [][]byte) (outcome, error) {
	var o outcome
	srv, err := newServer()
	if err != nil {
		return o, err
	}
	defer srv.Close()
	obs, err := refclient.LoginAs(srv, "10.2.2.1:1", "guest", "", "Observer")
	if err != nil {
		return o, err
	}
	srv.Quiesce(refclient.Watchdog)
	obs.Drain()
	cl := refclient.Connect(srv, "10.2.2.2:1")
	cl.Conn.Send(segs...)
	if !cl.Conn.WaitIdle(refclient.Watchdog) || !srv.Quiesce(refclient.Watchdog) {
		return o, fmt.Errorf("no quiescence")
	}
	out := cl.Conn.Out()
	o.raw = out
	if bytes.HasPrefix(out, rc.HandshakeReply) {
		cl.SkipHandshakeReply()
		for _, t := range cl.Inbox() {
			o.frames = append(o.frames, normTran(t))
		}
		if cl.FrameErr != nil {
			o.note = "stream does not re-frame: " + cl.FrameErr.Error()
		}
	} else {
		o.note = fmt.Sprintf("no handshake reply; %d bytes written, handler done=%v err=%v", len(out), cl.Conn.HandlerDone(), cl.Err)
	}
	sort.Strings(o.frames)
	for _, t := range obs.Drain() {
		o.observer = append(o.observer, normTran(t))
	}
	sort.Strings(o.observer)
	o.snap = normSnap(fixture.Snapshot(srv.Dir))
	return o, nil
}

// ---- transfer sessions ----

type xferSession struct {
	kind       string
	request    func(cl *refclient.Client) ([]byte, error) // control request, returns the reference number
	stream     func(ref []byte) []byte                    // client bytes on the transfer connection
	boundaries []int
	prepare    func(fileRoot string) // files that are there before the session starts
}

func buildTransfer(r *core.Rand, kind string) xferSession {
	s := xferSession{kind: kind}
	ref := func(rep rc.Tran, ok bool) ([]byte, error) {
		if !ok || rep.Err != 0 {
			return nil, fmt.Errorf("request refused: %v", rep)
		}
		b, _ := rep.Get(107)
		return b, nil
	}
	switch kind {
	case "download":
		name := core.Pick(r, []string{"alpha.txt", "beta.bin"})
		s.request = func(cl *refclient.Client) ([]byte, error) { return ref(cl.Call(202, rc.FS(201, name))) }
		s.stream = func(ref []byte) []byte { return rc.Preamble(ref, 0) }
		s.boundaries = []int{4, 8, 12, 16}
	case "upload":
		data := r.Bytes(core.Pick(r, []int{0, 1, 100, 5000, 40000}))
		var rsrc []byte
		if r.Bool() {
			rsrc = r.Bytes(1 + r.Intn(2000))
		}
		name := []byte("seg-upload.bin")
		comment := r.Printable(r.Intn(30))
		body := xfer.UploadStream(name, comment, data, rsrc)
		s.request = func(cl *refclient.Client) ([]byte, error) {
			return ref(cl.Call(203, rc.F(201, name), rc.F(202, rc.PathS("Uploads")), rc.F(108, rc.U32(len(body)))))
		}
		s.stream = func(ref []byte) []byte { return append(rc.Preamble(ref, len(body)), body...) }
		h := 16 + xfer.HeaderLen(name, comment)
		s.boundaries = []int{16, 16 + 24, 16 + 40, 16 + 40 + 72, h - 16, h, h + len(data), h + len(data) + 16}
	case "folder-download":
		// dir contains: inner.txt, sub/ (deep.txt), .hidden(skipped) -> items: inner.txt, sub, sub/deep.txt
		actions := []byte{0, 1} // initial action after the preamble
		// action 2 = resume: the client holds a part of that file already and sends a resume record with its offset
		script := core.Pick(r, [][]int{{1, 1, 1}, {3, 1, 1}, {1, 3, 3}, {1, 1, 3}, {2, 1, 1}, {1, 1, 2}, {2, 1, 2}})
		kindsOfItem := []bool{false, true, false} // inner.txt (file), sub (dir), sub/deep.txt (file)
		bnd := []int{16, 18}
		for i, a := range script {
			actions = append(actions, 0, byte(a))
			bnd = append(bnd, 16+len(actions))
			if a == 2 {
				rd := rc.ResumeData(rc.Fork{Type: [4]byte{'D', 'A', 'T', 'A'}, Size: uint32(1 + r.Intn(3))})
				actions = append(actions, rc.U16(len(rd))...)
				bnd = append(bnd, 16+len(actions), 16+len(actions)+4, 16+len(actions)+42)
				actions = append(actions, rd...)
				bnd = append(bnd, 16+len(actions))
			}
			if (a == 1 || a == 2) && !kindsOfItem[i] {
				actions = append(actions, 0, 3) // after a file was sent the client asks for the next item
			}
		}
		s.request = func(cl *refclient.Client) ([]byte, error) { return ref(cl.Call(210, rc.FS(201, "dir"))) }
		s.stream = func(ref []byte) []byte { return append(rc.Preamble(ref, 0), actions...) }
		s.boundaries = bnd
	case "folder-upload":
		var body []byte
		var bnd []int
		mark := func() { bnd = append(bnd, 16+len(body)) }
		item := func(isDir bool, path ...string) {
			mark()
			bs := make([][]byte, len(path))
			for i, p := range path {
				bs[i] = []byte(p)
			}
			body = append(body, rc.FolderItem(isDir, bs...)...)
			mark()
		}
		file := func(data []byte, path ...string) {
			item(false, path...)
			fl := xfer.UploadStream([]byte(path[len(path)-1]), nil, data, nil)
			body = append(body, rc.U32(len(fl))...)
			mark()
			body = append(body, fl...)
			mark()
		}
		one := r.Bytes(2 + r.Intn(3000))
		if r.Bool() {
			// an earlier, interrupted upload of the folder left a partial of the first file: the server asks to resume it,
			// and the client continues with the size and the rest of that file
			k := 1 + r.Intn(len(one)-1)
			head := append([]byte{}, one[:k]...)
			s.prepare = func(root string) {
				os.MkdirAll(filepath.Join(root, "Uploads", "SegFolder"), 0755)
				os.WriteFile(filepath.Join(root, "Uploads", "SegFolder", "one.txt.incomplete"), head, 0644)
			}
			file(one[k:], "one.txt")
		} else {
			file(one, "one.txt")
		}
		item(true, "nested")
		file(r.Bytes(r.Intn(20000)), "nested", "two.bin")
		file(nil, "nested", "empty.dat")
		s.request = func(cl *refclient.Client) ([]byte, error) {
			return ref(cl.Call(213, rc.FS(201, "SegFolder"), rc.F(202, rc.PathS("Uploads")), rc.F(108, rc.U32(len(body))), rc.F(220, rc.U16(4))))
		}
		s.stream = func(ref []byte) []byte { return append(rc.Preamble(ref, len(body)), body...) }
		s.boundaries = append([]int{16}, bnd...)
	}
	return s
}

func runTransfer(s xferSession, part func(stream []byte) [][]byte) (outcome, error) {
	var o outcome
	srv, err := newServer()
	if err != nil {
		return o, err
	}
	defer srv.Close()
	if s.prepare != nil {
		s.prepare(srv.FileRoot)
	}
	cl, err := refclient.LoginAs(srv, "10.2.3.1:1", "admin", "", "Xfer")
	if err != nil {
		return o, err
	}
	ref, err := s.request(cl)
	if err != nil {
		return o, err
	}
	stream := s.stream(ref)
	t := refclient.OpenTransfer(srv, "10.2.3.1:2")
	t.Conn.Send(part(stream)...)
	// the client keeps the connection open until the server is done
	select {
	case <-t.Conn.Done:
	case <-time.After(xfer.TransferWatchdog):
		// a server that waits for bytes it will never get: end the stream so that it returns
		t.Conn.CloseWrite()
		select {
		case <-t.Conn.Done:
			o.note = "server was still waiting for input when the whole stream had been delivered"
		case <-time.After(xfer.TransferWatchdog):
			return o, fmt.Errorf("transfer handler never returned")
		}
	}
	out := t.Conn.Out()
	// blank the reference number echoed nowhere; downloads carry file dates in the info fork: blank them
	o.raw = blankDates(out)
	if t.Err != nil {
		o.note += " handler error: " + t.Err.Error()
	}
	o.snap = normSnap(fixture.Snapshot(srv.Dir))
	return o, nil
}

// blankDates zeroes the create/modify dates of every info fork found in a transfer stream.
func blankDates(b []byte) []byte {
	out := append([]byte{}, b...)
	for i := 0; i+40+72 <= len(out); i++ {
		if string(out[i:i+4]) == "FILP" && string(out[i+24:i+28]) == "INFO" {
			for j := i + 40 + 52; j < i+40+68; j++ {
				out[j] = 0
			}
		}
	}
	return out
}

// ---- partitions ----

type partition struct {
	class string
	desc  string
	cut   func(stream []byte) [][]byte
}

func partitions(c *core.Case, boundaries func(n int) []int) []partition {
	r := c.R
	ks := []int{2, 3, 5, 11, 12, 13, 16, 20, 22, 23}
	k := ks[c.Index%len(ks)]
	p := 1 + (c.Index/5)%64
	ps := []partition{
		{"1-byte", "every byte its own segment", func(s []byte) [][]byte {
			if len(s) > 30000 { // 1-byte delivery of very large streams: first 4 KiB bytewise, rest in 7-byte pieces
				return append(transport.Partition(s[:4096], []int{1}), transport.Partition(s[4096:], []int{7})...)
			}
			return transport.Partition(s, []int{1})
		}},
		{"fixed-k", fmt.Sprintf("fixed %d", k), func(s []byte) [][]byte { return transport.Partition(s, []int{k}) }},
		{"single-cut", fmt.Sprintf("single cut at %d", p), func(s []byte) [][]byte { return transport.CutAt(s, p) }},
	}
	for i := 0; i < 2; i++ {
		ps = append(ps, partition{"boundary±1", "", nil})
		j := len(ps) - 1
		pick := r.Uint64()
		ps[j].cut = func(s []byte) [][]byte {
			bs := boundaries(len(s))
			b := bs[int(pick%uint64(len(bs)))]
			ps[j].desc = fmt.Sprintf("cuts at %d,%d,%d", b-1, b, b+1)
			return transport.CutAt(s, b-1, b, b+1)
		}
	}
	seedA, seedB := r.Uint64(), r.Uint64()
	ps = append(ps, partition{"random", "random small pieces", func(s []byte) [][]byte {
		rr := core.NewRand(int64(seedA))
		var sizes []int
		for i := 0; i < 64; i++ {
			sizes = append(sizes, 1+rr.Intn(30))
		}
		return transport.Partition(s, sizes)
	}})
	ps = append(ps, partition{"random", "random large pieces", func(s []byte) [][]byte {
		rr := core.NewRand(int64(seedB))
		var sizes []int
		for i := 0; i < 16; i++ {
			sizes = append(sizes, 1+rr.Intn(5000))
		}
		return transport.Partition(s, sizes)
	}})
	return ps
}

func diffOutcome(a, b outcome) string {
	if strings.Join(a.frames, "\n") != strings.Join(b.frames, "\n") {
		return fmt.Sprintf("transactions written back differ: baseline %d frames, variant %d frames (variant note: %s)", len(a.frames), len(b.frames), b.note)
	}
	if strings.Join(a.observer, "\n") != strings.Join(b.observer, "\n") {
		return fmt.Sprintf("what the observer received differs: baseline %d, variant %d transactions", len(a.observer), len(b.observer))
	}
	if d := fixture.Diff(a.snap, b.snap); len(d) > 0 {
		return fmt.Sprintf("server files differ: %v (variant note: %s)", d, b.note)
	}
	if a.frames == nil && !bytes.Equal(a.raw, b.raw) {
		return fmt.Sprintf("bytes written on the connection differ: baseline %d bytes, variant %d bytes (variant note: %s)", len(a.raw), len(b.raw), b.note)
	}
	return ""
}

func runCase(c *core.Case) {
	kinds := []string{"control", "control", "control", "download", "upload", "folder-download", "folder-upload"}
	kind := kinds[c.Index%len(kinds)]
	all := func(s []byte) [][]byte { return [][]byte{s} }
	if kind == "control" {
		sess := buildControl(c.R)
		base, err := runControl(sess.stream, all(sess.stream))
		if err != nil {
			c.Unsure("baseline: %v", err)
			return
		}
		// The one-segment delivery is only one partition among the others: if it is the one that is not served while
		// another partition of the same bytes is, that is a difference like any other.
		baseServed := base.note == "" && len(base.frames) >= 3
		var classes []string
		for _, p := range partitions(c, func(int) []int { return sess.boundaries }) {
			segs := p.cut(sess.stream)
			v, err := runControl(sess.stream, segs)
			if err != nil {
				c.Unsure("variant %s: %v", p.class, err)
				return
			}
			c.Count("variants", 1)
			c.Count("segments_delivered", len(segs))
			if !baseServed {
				if v.note == "" && len(v.frames) >= 3 {
					c.Fail("C02/control/one-segment", "control session (%d bytes, requests %v) is served when delivered as %s (%d segments, %d frames written back) but not when delivered in one segment: %s (%d frames)", len(sess.stream), sess.desc, p.desc, len(segs), len(v.frames), base.note, len(base.frames))
				}
			} else if d := diffOutcome(base, v); d != "" {
				c.Fail("C02/control/"+p.class, "control session (%d bytes, requests %v) delivered as %s (%d segments): %s", len(sess.stream), sess.desc, p.desc, len(segs), d)
			}
			classes = append(classes, p.class)
		}
		if !baseServed && !c.Failed() {
			c.Unsure("session not served under any partition: %s (%d frames)", base.note, len(base.frames))
			return
		}
		c.Describe("control/"+fmt.Sprint(c.Index%10), map[string]any{"session": "control", "stream_bytes": len(sess.stream), "requests": sess.desc, "partition_classes": classes})
		return
	}
	sess := buildTransfer(c.R, kind)
	base, err := runTransfer(sess, all)
	if err != nil {
		c.Unsure("baseline %s: %v", kind, err)
		return
	}
	baseServed := !strings.Contains(base.note, "handler error")
	var classes []string
	for _, p := range partitions(c, func(n int) []int {
		var bs []int
		for _, b := range sess.boundaries {
			if b > 0 && b < n {
				bs = append(bs, b)
			}
		}
		if len(bs) == 0 {
			bs = []int{n / 2}
		}
		return bs
	}) {
		var nseg int
		v, err := runTransfer(sess, func(s []byte) [][]byte { segs := p.cut(s); nseg = len(segs); return segs })
		if err != nil {
			c.Unsure("variant %s/%s: %v", kind, p.class, err)
			return
		}
		c.Count("variants", 1)
		c.Count("segments_delivered", nseg)
		if !baseServed {
			if !strings.Contains(v.note, "handler error") {
				c.Fail("C02/"+kind+"/one-segment", "%s session is served when delivered as %s (%d segments) but not when delivered in one segment: %s", kind, p.desc, nseg, base.note)
			}
		} else if d := diffOutcome(base, v); d != "" {
			c.Fail("C02/"+kind+"/"+p.class, "%s session delivered as %s (%d segments): %s", kind, p.desc, nseg, d)
		}
		classes = append(classes, p.class)
	}
	if !baseServed && !c.Failed() {
		c.Unsure("%s session not served under any partition: %s", kind, base.note)
		return
	}
	c.Describe(kind+"/"+fmt.Sprint(c.Index%10), map[string]any{"session": kind, "partition_classes": classes, "baseline_bytes_written_by_server": len(base.raw)})
	_ = filepath.Join
}
