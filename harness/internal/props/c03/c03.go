// Package c03: hostile input is contained to the offending connection.
package c03

import (
	"bufio"
	"bytes"
	"context"
	"encoding/json"
	"fmt"
	"io"
	"net"
	"os"
	"os/exec"
	"path/filepath"
	"runtime"
	"sort"
	"strings"
	"sync"
	"sync/atomic"
	"syscall"
	"time"

	"github.com/jhalter/mobius/hotline"

	"verifharness/internal/core"
	"verifharness/internal/fixture"
	"verifharness/internal/refclient"
	rc "verifharness/internal/refcodec"
)

type prop struct{}

func init() {
	core.Register(prop{})
	// a data race inside a runtime map operation is a process abort ("concurrent map writes") in production
	core.RaceClassifier["C03"] = func(b core.Batch, r core.RaceReport) (bool, string) {
		return r.RuntimeMap, "C03/race-in-runtime-map"
	}
}

func (prop) ID() string    { return "C03" }
func (prop) Level() string { return "exploration" }
func (prop) Rule() string {
	return "monitor A runs the real Server.Serve, ServeFileTransfers, processOutbox and keepaliveHandler in a child process on loopback TCP (once as a race-detector build, once plain) with three well-behaved sentinel clients (guest, file user, administrator editing a scratch account) logged in; batches of 150-250 concurrent hostile connections from distinct 127.x.y.z source addresses hit both ports: random bytes, handshake then garbage, logins followed by mutated transactions of all 43 types (truncation at every offset class, total/data size, field count and field sizes set to 0,1,2,len+-1,0x7fff,0xffff,0xffffffff, fields removed/duplicated/reordered, wrong-length ids, hostile path and resume encodings), transfer streams with bad preambles, unknown and reused reference numbers, truncated flattened files with declared sizes up to 1 MiB, tiny folder-item headers, peers that stall or never read. After every batch each sentinel's probes must be answered (a missing answer triggers SIGQUIT and the goroutine dump decides wedged vs slow), the process must be alive, and once the hostile sockets are gone the user list and the connection/transfer counters must equal the sentinels' baseline. Monitor B fuzzes mutated transactions in-process at high rate (a Go fatal error kills the worker = violation). distinct = (transaction type or stream kind, mutation class); non-trivial = every hostile connection"
}

type args struct {
	Mode     string `json:"mode"` // "tcp" | "inproc"
	Batches  int    `json:"batches"`
	PerBatch int    `json:"per_batch"`
	Index    int    `json:"index"`
}

func (prop) Plan(tier string, seed int64) []core.Batch {
	nb, per, inproc := 20, 200, 6
	if tier == "thorough" {
		nb, per, inproc = 120, 250, 40
	}
	var bs []core.Batch
	a1, _ := json.Marshal(args{Mode: "tcp", Batches: nb, PerBatch: per})
	bs = append(bs, core.Batch{Name: "tcp-race", Race: true, Args: a1, Timeout: 3000, CrashIsViolation: false})
	a2, _ := json.Marshal(args{Mode: "tcp", Batches: nb, PerBatch: per, Index: 1})
	bs = append(bs, core.Batch{Name: "tcp-plain", Args: a2, Timeout: 3000})
	for i := 0; i < inproc; i++ {
		a3, _ := json.Marshal(args{Mode: "inproc", Batches: 60, PerBatch: 40, Index: i})
		bs = append(bs, core.Batch{Name: fmt.Sprintf("inproc-%d", i), Args: a3, Timeout: 1500, CrashIsViolation: true})
	}
	return bs
}

func (prop) Replay(payload json.RawMessage, em *core.Emitter) {
	em.Emit(core.Result{Case: "replay", Verdict: core.Inconclusive, Msg: "C03 witnesses are concurrent workloads: re-run `check.sh C03 quick` with the same VERIF_SEED; the replay file holds the hostile stream (hex) and the server log"})
}

func (prop) Run(b core.Batch, em *core.Emitter) {
	var a args
	json.Unmarshal(b.Args, &a)
	if a.Mode == "tcp" {
		limitSizeCap = 4096
		runTCP(b, a, em)
	} else {
		runInproc(b, a, em)
	}
}

// ---------------------------------------------------------------------------------------------
// the server child

// The hostile account may set file and folder comments (28, 29) and disconnect users (22): the sentinels hold cannot-be-disconnected (23), so the only users a
// hostile session can legitimately remove are other hostile sessions.
var hostileBits = []int{1, 2, 9, 10, 11, 20, 21, 22, 24, 26, 28, 29, 32, 38, 39, 40}

func accounts() []fixture.Account {
	return []fixture.Account{
		{Login: "guest", Name: "guest", Access: fixture.GuestBits()},
		{Login: "sguest", Name: "Sentinel Guest", Access: rc.Bitmap(2, 39, 1, 38, 9, 10, 11, 20, 21, 23, 26, 40)},
		{Login: "sfile", Name: "Sentinel File", Access: rc.Bitmap(0, 1, 2, 3, 4, 5, 9, 10, 20, 23, 25, 26, 38, 39)},
		{Login: "sadmin", Name: "Sentinel Admin", Access: rc.AllBits()},
		{Login: "scratch", Name: "Scratch", Password: "x", Access: rc.Bitmap(2)},
		{Login: "hostile", Name: "Hostile", Access: rc.Bitmap(hostileBits...)},
	}
}

func files(root string) {
	fixture.WriteFile(root+"/sentinel/a.txt", "aaa")
	fixture.WriteFile(root+"/sentinel/b.txt", "bbbb")
	fixture.WriteFile(root+"/public/file.txt", strings.Repeat("public", 500))
	fixture.WriteFile(root+"/public/dir/inner.txt", "inner")
	os.MkdirAll(root+"/Uploads", 0755)
}

const newsYAML = "Categories:\n  cat:\n    Type: [0, 3]\n    Name: cat\n    Articles: {}\n    SubCats: {}\n"

// ServerMain is the entry point of `vcheck c03server <dir>`: the real accept loops on loopback TCP.
func ServerMain(dir string) int {
	os.Setenv("VERIF_SCRATCH", dir)
	srv, err := fixture.New(fixture.Options{Accounts: accounts(), Agreement: "agreement", Board: strings.Repeat("board line\r", 200), NewsYAML: newsYAML, Files: files, NoOutbox: true})
	if err != nil {
		fmt.Println("ERR", err)
		return 3
	}
	ctx := context.Background()
	ln1, err := net.Listen("tcp", "127.0.0.1:0")
	if err != nil {
		fmt.Println("ERR", err)
		return 3
	}
	ln2, err := net.Listen("tcp", "127.0.0.1:0")
	if err != nil {
		fmt.Println("ERR", err)
		return 3
	}
	go srv.S.VerifProcessOutbox()
	go srv.S.VerifKeepaliveHandler(ctx)
	go func() { fmt.Println("SERVE-RETURNED", srv.S.Serve(ctx, ln1)); os.Exit(5) }()
	go func() { fmt.Println("SERVEFT-RETURNED", srv.S.ServeFileTransfers(ctx, ln2)); os.Exit(5) }()
	fmt.Printf("PORTS %d %d\n", ln1.Addr().(*net.TCPAddr).Port, ln2.Addr().(*net.TCPAddr).Port)
	sc := bufio.NewScanner(os.Stdin)
	for sc.Scan() {
		switch strings.TrimSpace(sc.Text()) {
		case "STATS":
			var names []string
			for _, c := range srv.S.ClientMgr.List() {
				names = append(names, string(c.UserName))
			}
			sort.Strings(names)
			st := srv.S.CurrentStats()
			delete(st, "Since")
			ch, tr := srv.S.VerifTableSizes()
			out, _ := json.Marshal(map[string]any{"users": names, "stats": st, "chats": ch, "transfers": tr, "panics": srv.Panics.Load()})
			fmt.Println("STATS", string(out))
		case "QUIT":
			return 0
		}
	}
	return 0
}

// ---------------------------------------------------------------------------------------------
// TCP clients

type tcpClient struct {
	c    net.Conn
	buf  []byte
	next uint32
	mu   sync.Mutex
}

func dialFrom(src string, port int) (net.Conn, error) {
	d := net.Dialer{Timeout: 5 * time.Second, LocalAddr: &net.TCPAddr{IP: net.ParseIP(src)}}
	return d.Dial("tcp", fmt.Sprintf("127.0.0.1:%d", port))
}

func login(src string, port int, account, name string) (*tcpClient, error) {
	c, err := dialFrom(src, port)
	if err != nil {
		return nil, err
	}
	t := &tcpClient{c: c, next: 1}
	c.SetDeadline(time.Now().Add(20 * time.Second))
	if _, err := c.Write(rc.Handshake()); err != nil {
		return nil, err
	}
	hs := make([]byte, 8)
	if _, err := io.ReadFull(c, hs); err != nil {
		return nil, fmt.Errorf("handshake reply: %w", err)
	}
	rep, err := t.call(20*time.Second, 107, rc.F(105, rc.Obfuscate([]byte(account))), rc.F(106, nil), rc.FS(102, name), rc.F(104, rc.U16(1)), rc.F(160, rc.U16(190)))
	if err != nil {
		return nil, err
	}
	if rep.Err != 0 {
		return nil, fmt.Errorf("login refused")
	}
	return t, nil
}

// call sends a request and waits for its reply (other transactions are skipped).
func (t *tcpClient) call(d time.Duration, typ int, fs ...rc.Field) (rc.Tran, error) {
	t.mu.Lock()
	defer t.mu.Unlock()
	id := t.next
	t.next++
	t.c.SetDeadline(time.Now().Add(d))
	if _, err := t.c.Write(rc.Tran{Type: uint16(typ), ID: id, Fields: fs}.Encode()); err != nil {
		return rc.Tran{}, err
	}
	tmp := make([]byte, 65536)
	for {
		for {
			tr, n, err := rc.DecodeTran(t.buf)
			if err == rc.ErrShort {
				break
			}
			if err != nil {
				return rc.Tran{}, fmt.Errorf("sentinel stream does not re-frame: %w", err)
			}
			t.buf = t.buf[n:]
			if tr.IsReply == 1 && tr.ID == id {
				return tr, nil
			}
		}
		n, err := t.c.Read(tmp)
		if n > 0 {
			t.buf = append(t.buf, tmp[:n]...)
		}
		if err != nil {
			return rc.Tran{}, err
		}
	}
}

// ---------------------------------------------------------------------------------------------
// hostile streams

type hostileConn struct {
	port   string // "ctl" | "xfer"
	class  string
	stream []byte
	stall  time.Duration
	noRead bool
	// needsRef: the stream is built after a reference number was obtained on a helper control connection
	xferKind string
}

var tranTypes = []int{101, 103, 105, 107, 108, 110, 112, 113, 114, 115, 116, 120, 121, 200, 202, 203, 204, 205, 206, 207, 208, 209, 210, 212, 213, 300, 303, 304, 348, 349, 350, 351, 352, 353, 355, 370, 371, 380, 381, 382, 400, 410, 411, 500}

var hostileSizes = []uint32{0, 1, 2, 0x7fff, 0xffff, 0x10000, 0xffffffec, 0xfffffff0, 0xffffffff}

// plausible fields for a request type, then mutated
func baseFields(r *core.Rand, typ int) []rc.Field {
	id2 := rc.U16(1 + r.Intn(6))
	chat := []byte{0, 0, 0, byte(r.Intn(3))}
	name := core.Pick(r, []string{"file.txt", "dir", "a.txt", "Uploads", "", "..", "x"})
	path := core.Pick(r, [][]byte{rc.PathS("public"), rc.PathS("sentinel"), rc.PathS(".."), rc.PathS("public", "dir"), {0, 9, 0, 0, 1, 'x'}, {0}, {}, rc.PathS(strings.Repeat("A", 255))})
	switch typ {
	case 105:
		return []rc.Field{rc.F(101, r.Printable(r.Intn(300))), rc.F(114, chat), rc.F(109, rc.U16(r.Intn(2)))}
	case 108:
		return []rc.Field{rc.F(103, id2), rc.F(113, rc.U16(1)), rc.FS(101, "pm"), rc.FS(214, "quote")}
	case 110:
		return []rc.Field{rc.F(103, id2), rc.F(113, rc.U16(r.Intn(3)))}
	case 112, 303:
		return []rc.Field{rc.F(103, id2)}
	case 113:
		return []rc.Field{rc.F(103, id2), rc.F(114, chat)}
	case 114, 115, 116:
		return []rc.Field{rc.F(114, chat)}
	case 120:
		return []rc.Field{rc.F(114, chat), rc.FS(115, "subject")}
	case 121:
		return []rc.Field{rc.FS(102, "Hostile"), rc.F(104, rc.U16(1)), rc.F(113, rc.U16(r.Intn(8))), rc.FS(215, "auto")}
	case 200:
		return []rc.Field{rc.F(202, path)}
	case 202:
		return []rc.Field{rc.FS(201, name), rc.F(202, path), rc.F(203, rc.ResumeData(rc.DataFork(r.Intn(100)))), rc.F(204, rc.U16(2))}
	case 203:
		return []rc.Field{rc.FS(201, name), rc.F(202, rc.PathS("Uploads")), rc.F(108, rc.U32(r.Intn(1<<20))), rc.F(204, rc.U16(1))}
	case 204, 206:
		return []rc.Field{rc.FS(201, name), rc.F(202, path)}
	case 205:
		return []rc.Field{rc.FS(201, name), rc.F(202, path)}
	case 207:
		return []rc.Field{rc.FS(201, name), rc.F(202, path), rc.FS(211, "new"), rc.FS(210, "comment")}
	case 208, 209:
		return []rc.Field{rc.FS(201, name), rc.F(202, path), rc.F(212, path)}
	case 210:
		return []rc.Field{rc.FS(201, name), rc.F(202, path)}
	case 213:
		return []rc.Field{rc.FS(201, name), rc.F(202, rc.PathS("Uploads")), rc.F(108, rc.U32(100)), rc.F(220, rc.U16(r.Intn(5)))}
	case 304:
		return []rc.Field{rc.FS(102, "Hostile"), rc.F(104, rc.U16(2)), rc.F(113, rc.U16(r.Intn(8))), rc.FS(215, "a")}
	case 349:
		return []rc.Field{rc.F(101, rc.SubFields(rc.F(105, rc.Obfuscate([]byte("zz"))), rc.FS(102, "n"), rc.F(106, []byte{0}), rc.F(110, make([]byte, 8))))}
	case 350, 353:
		return []rc.Field{rc.F(105, rc.Obfuscate([]byte("zz"))), rc.FS(102, "n"), rc.F(106, rc.Obfuscate([]byte("p"))), rc.F(110, make([]byte, 8))}
	case 351:
		return []rc.Field{rc.F(105, rc.Obfuscate([]byte("zz")))}
	case 352:
		return []rc.Field{rc.FS(105, "guest")}
	case 355, 103:
		return []rc.Field{rc.F(101, r.Printable(r.Intn(200)))}
	case 370, 371, 380:
		return []rc.Field{rc.F(325, rc.PathS("cat"))}
	case 381:
		return []rc.Field{rc.FS(201, "b"), rc.F(325, rc.PathS("nope"))}
	case 382:
		return []rc.Field{rc.FS(322, "c"), rc.F(325, rc.PathS("nope", "deeper"))}
	case 400, 411:
		return []rc.Field{rc.F(325, rc.PathS("cat")), rc.F(326, rc.U32(r.Intn(3))), rc.FS(327, "text/plain")}
	case 410:
		return []rc.Field{rc.F(325, core.Pick(r, [][]byte{rc.PathS("cat"), rc.PathS("missing"), {}})), rc.F(326, rc.U32(r.Intn(4))), rc.FS(328, "t"), rc.FS(333, "b")}
	}
	return nil
}

// mutate builds the bytes of one hostile transaction and names the mutation class.
func mutate(r *core.Rand, typ int, id uint32) ([]byte, string) {
	fs := baseFields(r, typ)
	class := core.Pick(r, []string{"valid", "drop-field", "dup-field", "shuffle", "short-data", "empty-data", "long-data", "total-size", "data-size", "param-count", "field-size", "truncate", "wrong-id-len", "all-fields-empty", "reply-flag"})
	switch class {
	case "drop-field":
		if len(fs) > 0 {
			k := r.Intn(len(fs))
			fs = append(fs[:k:k], fs[k+1:]...)
		}
	case "dup-field":
		if len(fs) > 0 {
			fs = append(fs, fs[r.Intn(len(fs))])
		}
	case "shuffle":
		for i := len(fs) - 1; i > 0; i-- {
			j := r.Intn(i + 1)
			fs[i], fs[j] = fs[j], fs[i]
		}
	case "short-data":
		if len(fs) > 0 {
			k := r.Intn(len(fs))
			if n := len(fs[k].Data); n > 0 {
				fs[k].Data = fs[k].Data[:r.Intn(n)]
			}
		}
	case "empty-data":
		if len(fs) > 0 {
			fs[r.Intn(len(fs))].Data = nil
		}
	case "long-data":
		if len(fs) > 0 {
			k := r.Intn(len(fs))
			fs[k].Data = append(fs[k].Data, r.Bytes(1+r.Intn(4000))...)
		}
	case "wrong-id-len":
		for i := range fs {
			if fs[i].ID == 103 || fs[i].ID == 114 || fs[i].ID == 113 || fs[i].ID == 326 {
				fs[i].Data = r.Bytes(core.Pick(r, []int{0, 1, 3, 5}))
			}
		}
	case "all-fields-empty":
		for i := range fs {
			fs[i].Data = nil
		}
	}
	t := rc.Tran{Type: uint16(typ), ID: id, Fields: fs}
	if class == "reply-flag" {
		t.IsReply = 1
	}
	b := t.Encode()
	put := func(off int, v uint32) {
		b[off], b[off+1], b[off+2], b[off+3] = byte(v>>24), byte(v>>16), byte(v>>8), byte(v)
	}
	trueSize := uint32(len(b) - 20)
	szs := append([]uint32{trueSize - 1, trueSize + 1}, hostileSizes...)
	switch class {
	case "total-size":
		put(12, core.Pick(r, szs))
	case "data-size":
		put(16, core.Pick(r, szs))
	case "param-count":
		v := core.Pick(r, []int{0, len(fs) + 1, len(fs) - 1, 0xffff, 0x7fff})
		b[20], b[21] = byte(v>>8), byte(v)
	case "field-size":
		if len(fs) > 0 {
			// size prefix of the first field
			v := core.Pick(r, []int{0, 1, len(fs[0].Data) + 1, len(fs[0].Data) - 1, 0xffff, 0x7fff})
			b[24], b[25] = byte(v>>8), byte(v)
		}
	case "truncate":
		b = b[:r.Intn(len(b))]
	}
	return b, class
}

var bigPosts atomic.Int64

// limitSizeCap bounds the text of the limit-size requests. The TCP monitor runs ~250 hostile sessions at once, where
// 64 KiB names and comments multiply into user lists and broadcasts of many megabytes; the full range is explored by
// the in-process monitor (8 hostile sessions per batch).
var limitSizeCap = 1 << 20

func hostileControl(r *core.Rand) hostileConn {
	h := hostileConn{port: "ctl"}
	switch r.Intn(10) {
	case 0:
		h.class = "random-bytes"
		h.stream = r.Bytes(1 + r.Intn(3000))
	case 1:
		h.class = "handshake-then-garbage"
		h.stream = append(rc.Handshake(), r.Bytes(r.Intn(5000))...)
	case 2:
		h.class = "handshake-only-stall"
		h.stream = rc.Handshake()[:r.Intn(13)]
		h.stall = time.Duration(r.Intn(400)) * time.Millisecond
	case 3:
		h.class = "login-huge-frame"
		h.stream = append(rc.Handshake(), rc.Tran{Type: 107, ID: 1, Fields: []rc.Field{rc.F(105, r.Bytes(65535)), rc.F(106, r.Bytes(200))}}.Encode()...)
	default:
		// valid login, then a pipeline of mutated transactions
		login := rc.Tran{Type: 107, ID: 1, Fields: []rc.Field{rc.F(105, rc.Obfuscate([]byte("hostile"))), rc.F(106, nil), rc.FS(102, "Hostile"), rc.F(104, rc.U16(3)), rc.F(160, rc.U16(190))}}
		h.stream = append(rc.Handshake(), login.Encode()...)
		var classes []string
		if r.Chance(1, 4) {
			// sent first, while the session is certainly still alive: well-formed requests that leave state behind, with their main text field at the limits of what one
			// transaction can carry: what they store is later read by other users' requests
			n := core.Pick(r, []int{255, 256, 4095, 4096, 32767, 32768, 65000, 65400 + r.Intn(130)})
			if n > limitSizeCap {
				n = limitSizeCap
			}
			text := bytes.Repeat([]byte{byte('a' + r.Intn(26))}, n)
			var t rc.Tran
			kind := r.Intn(6)
			if (kind == 1 || kind == 2) && n > 8192 && bigPosts.Add(1) > 3 {
				// every post makes the store rewrite its whole file: only a few large ones per server, so that the stores
				// stay of a size at which the sentinels' deadlines are meaningful
				n = 4096
				text = text[:n]
			}
			switch kind {
			case 0:
				t = rc.Tran{Type: 207, Fields: []rc.Field{rc.FS(201, "file.txt"), rc.F(202, rc.PathS("public")), rc.F(210, text)}}
			case 1:
				t = rc.Tran{Type: 410, Fields: []rc.Field{rc.F(325, rc.PathS("cat")), rc.F(326, rc.U32(0)), rc.FS(328, "limit"), rc.FS(327, "text/plain"), rc.F(333, text)}}
			case 2:
				t = rc.Tran{Type: 103, Fields: []rc.Field{rc.F(101, text)}}
			case 3:
				// ... and an icon id of 0 to 5 bytes (2 and 4 are the legal integer encodings)
				t = rc.Tran{Type: 304, Fields: []rc.Field{rc.F(102, text), rc.F(104, r.Bytes(r.Intn(6)))}}
			case 4:
				t = rc.Tran{Type: 207, Fields: []rc.Field{rc.FS(201, "dir"), rc.F(202, rc.PathS("public")), rc.F(210, text)}}
			case 5:
				t = rc.Tran{Type: 105, Fields: []rc.Field{rc.F(101, text)}}
			}
			t.ID = uint32(n)
			if r.Chance(1, 3) {
				// ... or as long as one transaction of at most 65535 bytes lets it be (and up to 47 bytes less)
				last := len(t.Fields) - 1
				for i, f := range t.Fields {
					if len(f.Data) == n {
						last = i
					}
				}
				over := len(t.Encode()) - n
				t.Fields[last].Data = text[:0]
				if room := 65535 - over - r.Intn(48); room > 0 && room <= limitSizeCap {
					t.Fields[last].Data = bytes.Repeat([]byte{'z'}, room)
				}
			}
			h.stream = append(h.stream, t.Encode()...)
			classes = append(classes, fmt.Sprintf("%d/limit-size", t.Type))
		}
		n := 1 + r.Intn(25)
		for i := 0; i < n; i++ {
			typ := core.Pick(r, tranTypes)
			b, cl := mutate(r, typ, uint32(i+2))
			h.stream = append(h.stream, b...)
			classes = append(classes, fmt.Sprintf("%d/%s", typ, cl))
		}
		h.class = "mutated:" + strings.Join(classes, ",")
		h.noRead = r.Chance(1, 6)
		if r.Chance(1, 8) {
			// many large-reply requests to a peer that never reads
			for i := 0; i < 40; i++ {
				h.stream = append(h.stream, rc.Tran{Type: 101, ID: uint32(100 + i)}.Encode()...)
			}
			h.noRead = true
			h.class += ",never-reads"
		}
		h.stall = time.Duration(r.Intn(200)) * time.Millisecond
	}
	return h
}

func hostileTransferStream(r *core.Rand, ref []byte, kind string) ([]byte, string) {
	class := core.Pick(r, []string{"bad-magic", "short-preamble", "unknown-ref", "zero-ref", "truncated-flat", "fork-count", "info-size-small", "info-size-big", "name-overrun", "data-size-big", "item-tiny", "item-count-overrun", "bad-action", "stall", "valid-then-cut"})
	pre := rc.Preamble(ref, r.Intn(1<<20))
	flat := func(dataSize int, forks int) []byte {
		info := rc.InfoFork{Name: []byte("h.bin"), Comment: r.Printable(r.Intn(20))}
		return rc.FlatHeader(info, dataSize, forks)
	}
	set32 := func(b []byte, off int, v uint32) {
		b[off], b[off+1], b[off+2], b[off+3] = byte(v>>24), byte(v>>16), byte(v>>8), byte(v)
	}
	switch class {
	case "bad-magic":
		p := append([]byte{}, pre...)
		p[r.Intn(4)] ^= 0xff
		return append(p, r.Bytes(r.Intn(100))...), class
	case "short-preamble":
		return pre[:r.Intn(16)], class
	case "unknown-ref":
		return append(rc.Preamble(r.Bytes(4), 10), r.Bytes(50)...), class
	case "zero-ref":
		return rc.Preamble([]byte{0, 0, 0, 0}, 10), class
	case "truncated-flat":
		f := append(flat(1000, 2), r.Bytes(1000)...)
		return append(pre, f[:r.Intn(len(f))]...), class
	case "fork-count":
		f := flat(10, core.Pick(r, []int{0, 3, 0xffff}))
		return append(append(pre, f...), r.Bytes(10)...), class
	case "info-size-small":
		f := flat(10, 2)
		set32(f, 36, uint32(r.Intn(72)))
		return append(append(pre, f...), r.Bytes(100)...), class
	case "info-size-big":
		f := flat(10, 2)
		set32(f, 36, uint32(200+r.Intn(1<<20-200)))
		return append(append(pre, f...), r.Bytes(r.Intn(3000))...), class
	case "name-overrun":
		f := flat(10, 2)
		f[40+70], f[40+71] = 0xff, 0xff
		return append(append(pre, f...), r.Bytes(100)...), class
	case "data-size-big":
		f := flat(1<<20, 2)
		return append(append(pre, f...), r.Bytes(r.Intn(5000))...), class
	case "item-tiny":
		// folder upload item header with size < 4
		return append(pre, []byte{0, byte(r.Intn(4)), 0, 0, 0, 1, 0, 0, 1, 'x'}...), class
	case "item-count-overrun":
		it := rc.FolderItem(false, []byte("a"))
		it[5] = 200
		return append(pre, it...), class
	case "bad-action":
		return append(pre, []byte{0, byte(4 + r.Intn(250)), 0, 9, 0, 7}...), class
	case "stall":
		return pre, class
	}
	f := append(flat(500, 2), r.Bytes(500)...)
	return append(pre, f[:len(f)-r.Intn(200)]...), "valid-then-cut"
}

// ---------------------------------------------------------------------------------------------
// monitor A

type child struct {
	cmd       *exec.Cmd
	stdin     io.WriteCloser
	lines     chan string
	ctl, xfer int
	logPath   string
	exited    chan struct{}
	exitErr   error
}

func startChild(scratch string) (*child, error) {
	exe, _ := os.Executable()
	dir := filepath.Join(scratch, "srv")
	os.MkdirAll(dir, 0755)
	c := &child{lines: make(chan string, 100), exited: make(chan struct{}), logPath: filepath.Join(scratch, "server.log")}
	c.cmd = exec.Command(exe, "c03server", dir)
	c.cmd.Env = os.Environ()
	var err error
	if c.stdin, err = c.cmd.StdinPipe(); err != nil {
		return nil, err
	}
	out, err := c.cmd.StdoutPipe()
	if err != nil {
		return nil, err
	}
	lf, _ := os.Create(c.logPath)
	c.cmd.Stderr = lf
	if err := c.cmd.Start(); err != nil {
		return nil, err
	}
	go func() {
		sc := bufio.NewScanner(out)
		sc.Buffer(make([]byte, 1<<20), 1<<26)
		for sc.Scan() {
			ln := sc.Text()
			if strings.HasPrefix(ln, "PORTS ") || strings.HasPrefix(ln, "STATS ") || strings.HasPrefix(ln, "ERR") || strings.HasPrefix(ln, "SERVE") {
				c.lines <- ln
			} else {
				fmt.Fprintln(lf, ln) // recovered-panic stack traces etc.
			}
		}
	}()
	go func() { c.exitErr = c.cmd.Wait(); lf.Close(); close(c.exited) }()
	select {
	case ln := <-c.lines:
		if _, err := fmt.Sscanf(ln, "PORTS %d %d", &c.ctl, &c.xfer); err != nil {
			return nil, fmt.Errorf("server child: %s", ln)
		}
	case <-c.exited:
		return nil, fmt.Errorf("server child exited at start: %v", c.exitErr)
	case <-time.After(60 * time.Second):
		return nil, fmt.Errorf("server child did not start")
	}
	return c, nil
}

func (c *child) alive() bool {
	select {
	case <-c.exited:
		return false
	default:
		return true
	}
}

func (c *child) stats() (map[string]any, error) {
	if _, err := io.WriteString(c.stdin, "STATS\n"); err != nil {
		return nil, err
	}
	select {
	case ln := <-c.lines:
		var m map[string]any
		if err := json.Unmarshal([]byte(strings.TrimPrefix(ln, "STATS ")), &m); err != nil {
			return nil, fmt.Errorf("stats line %q", ln)
		}
		return m, nil
	case <-c.exited:
		return nil, fmt.Errorf("server exited")
	case <-time.After(30 * time.Second):
		return nil, fmt.Errorf("no answer on the control pipe")
	}
}

func tailOf(path string, n int) string {
	b, _ := os.ReadFile(path)
	s := string(b)
	if i := strings.Index(s, "fatal error:"); i >= 0 {
		if len(s)-i > n {
			return s[i : i+n]
		}
		return s[i:]
	}
	if len(s) > n {
		return s[len(s)-n:]
	}
	return s
}

func runTCP(b core.Batch, a args, em *core.Emitter) {
	scratch := core.ScratchDir()
	r := core.NewRand(b.Seed, uint64(a.Index), 0x03)
	ch, err := startChild(scratch)
	if err != nil {
		em.Emit(core.Result{Case: b.Name, Verdict: core.Inconclusive, Msg: err.Error()})
		return
	}
	defer func() {
		if ch.alive() {
			io.WriteString(ch.stdin, "QUIT\n")
			select {
			case <-ch.exited:
			case <-time.After(5 * time.Second):
				ch.cmd.Process.Kill()
			}
		}
	}()
	died := func(caseID string, h *hostileConn) bool {
		if ch.alive() {
			return false
		}
		var rep any
		if h != nil {
			rep = map[string]any{"class": h.class, "stream_hex": fmt.Sprintf("%x", h.stream[:min(len(h.stream), 4000)])}
		}
		em.Emit(core.Result{Case: caseID, Class: "server-death", Verdict: core.Violated, Key: "C03/server-process-died", Replay: rep,
			Msg: fmt.Sprintf("the server process exited (%v) while hostile connections were being served; log:\n%s", ch.exitErr, tailOf(ch.logPath, 3000))})
		return true
	}
	type sentinel struct {
		name  string
		cl    *tcpClient
		probe func(cl *tcpClient) error
	}
	mk := func(src, account, name string, probe func(cl *tcpClient) error) (*sentinel, error) {
		cl, err := login(src, ch.ctl, account, name)
		if err != nil {
			return nil, fmt.Errorf("sentinel %s: %w", name, err)
		}
		return &sentinel{name, cl, probe}, nil
	}
	probeCommon := func(cl *tcpClient) error {
		if _, err := cl.call(30*time.Second, 500); err != nil {
			return fmt.Errorf("keep-alive: %w", err)
		}
		rep, err := cl.call(30*time.Second, 300)
		if err != nil {
			return fmt.Errorf("user list: %w", err)
		}
		if rep.Err != 0 || len(rep.GetAll(300)) < 3 {
			return fmt.Errorf("user list reply: error %d, %d entries", rep.Err, len(rep.GetAll(300)))
		}
		return nil
	}
	var sents []*sentinel
	for _, d := range []struct {
		src, acc, name string
		probe          func(cl *tcpClient) error
	}{
		{"127.1.0.1", "sguest", "S-Guest", probeCommon},
		{"127.1.0.2", "sfile", "S-File", func(cl *tcpClient) error {
			if err := probeCommon(cl); err != nil {
				return err
			}
			rep, err := cl.call(30*time.Second, 200, rc.F(202, rc.PathS("sentinel")))
			if err != nil {
				return fmt.Errorf("file list: %w", err)
			}
			if n := len(rep.GetAll(200)); n != 2 || rep.Err != 0 {
				return fmt.Errorf("file list of the sentinel's folder has %d entries (err %d), want 2", n, rep.Err)
			}
			return nil
		}},
		{"127.1.0.3", "sadmin", "S-Admin", func(cl *tcpClient) error {
			if err := probeCommon(cl); err != nil {
				return err
			}
			rep, err := cl.call(30*time.Second, 353, rc.F(105, rc.Obfuscate([]byte("scratch"))), rc.FS(102, "Scratch"), rc.F(110, rc.Bitmap(2, 9)), rc.F(106, []byte{0}))
			if err != nil {
				return fmt.Errorf("set-user: %w", err)
			}
			if rep.Err != 0 {
				return fmt.Errorf("set-user on the scratch account refused")
			}
			return nil
		}},
	} {
		s, err := mk(d.src, d.acc, d.name, d.probe)
		if err != nil {
			if died(b.Name+"/start", nil) {
				return
			}
			em.Emit(core.Result{Case: b.Name, Verdict: core.Inconclusive, Msg: err.Error()})
			return
		}
		sents = append(sents, s)
	}
	base, err := ch.stats()
	if err != nil {
		em.Emit(core.Result{Case: b.Name, Verdict: core.Inconclusive, Msg: "baseline stats: " + err.Error()})
		return
	}
	baseUsers := fmt.Sprint(base["users"])
	var seq atomic.Int64
	for batch := 0; batch < a.Batches; batch++ {
		var wg sync.WaitGroup
		var hs []hostileConn
		for i := 0; i < a.PerBatch; i++ {
			hs = append(hs, hostileControl(r))
		}
		// transfer-port connections need reference numbers: a helper hostile session asks for some
		var refs [][]byte
		var refKinds []string
		var helperConn net.Conn
		if helper, err := login(fmt.Sprintf("127.9.%d.%d", batch/250, 1+batch%250), ch.ctl, "hostile", "Hostile"); err == nil {
			helperConn = helper.c
			for i := 0; i < 6; i++ {
				var rep rc.Tran
				var err error
				kind := []string{"download", "upload", "folder-upload", "folder-download", "upload", "download"}[i]
				switch kind {
				case "download":
					rep, err = helper.call(20*time.Second, 202, rc.FS(201, "file.txt"), rc.F(202, rc.PathS("public")))
				case "upload":
					rep, err = helper.call(20*time.Second, 203, rc.FS(201, fmt.Sprintf("h%d-%d.bin", batch, i)), rc.F(202, rc.PathS("Uploads")), rc.F(108, rc.U32(1000)))
				case "folder-upload":
					rep, err = helper.call(20*time.Second, 213, rc.FS(201, fmt.Sprintf("hf%d", batch)), rc.F(202, rc.PathS("Uploads")), rc.F(108, rc.U32(100)), rc.F(220, rc.U16(3)))
				case "folder-download":
					rep, err = helper.call(20*time.Second, 210, rc.FS(201, "dir"), rc.F(202, rc.PathS("public")))
				}
				if ref, ok := rep.Get(107); err == nil && ok {
					refs = append(refs, ref)
					refKinds = append(refKinds, kind)
				}
			}
		}
		for i := 0; i < a.PerBatch/4 && len(refs) > 0; i++ {
			k := r.Intn(len(refs)) // reference numbers are deliberately reused by several connections
			st, cl := hostileTransferStream(r, refs[k], refKinds[k])
			hs = append(hs, hostileConn{port: "xfer", class: refKinds[k] + "/" + cl, stream: st, stall: time.Duration(r.Intn(300)) * time.Millisecond})
		}
		for i := range hs {
			wg.Add(1)
			go func(h hostileConn) {
				defer wg.Done()
				n := seq.Add(1)
				src := fmt.Sprintf("127.%d.%d.%d", 10+(n/62500)%200, (n/250)%250, 1+n%250)
				port := ch.ctl
				if h.port == "xfer" {
					port = ch.xfer
				}
				c, err := dialFrom(src, port)
				if err != nil {
					return
				}
				defer c.Close()
				c.SetDeadline(time.Now().Add(15 * time.Second))
				if !h.noRead {
					go io.Copy(io.Discard, c)
				}
				// write in a few pieces
				s := h.stream
				for len(s) > 0 {
					k := 1 + int(n*7919%int64(len(s)))
					if _, err := c.Write(s[:k]); err != nil {
						break
					}
					s = s[k:]
				}
				time.Sleep(h.stall)
			}(hs[i])
		}
		wg.Wait()
		if helperConn != nil {
			helperConn.Close()
		}
		if died(fmt.Sprintf("%s/batch%d", b.Name, batch), &hs[0]) {
			return
		}
		// sentinel probes
		for _, s := range sents {
			errc := make(chan error, 1)
			go func() { errc <- s.probe(s.cl) }()
			var perr error
			select {
			case perr = <-errc:
			case <-time.After(90 * time.Second):
				perr = fmt.Errorf("watchdog")
			}
			if perr == nil {
				continue
			}
			if died(fmt.Sprintf("%s/batch%d", b.Name, batch), &hs[0]) {
				return
			}
			// a well-behaved client is not being served: ask the server for a goroutine dump and decide
			ch.cmd.Process.Signal(syscall.SIGQUIT)
			select {
			case <-ch.exited:
			case <-time.After(20 * time.Second):
			}
			dump, _ := os.ReadFile(ch.logPath)
			blocked := 0
			for _, g := range strings.Split(string(dump), "\n\n") {
				if strings.Contains(g, "handleNewConnection") && (strings.Contains(g, "[chan send") || strings.Contains(g, "[sync.Mutex.Lock") || strings.Contains(g, "[semacquire") || strings.Contains(g, "[sync.RWMutex")) {
					blocked++
				}
			}
			v, key := core.Violated, "C03/sentinel-not-served"
			if strings.Contains(perr.Error(), "watchdog") && blocked == 0 {
				v, key = core.Inconclusive, ""
			}
			em.Emit(core.Result{Case: fmt.Sprintf("%s/batch%d/%s", b.Name, batch, s.name), Class: "sentinel", Verdict: v, Key: key,
				Msg: fmt.Sprintf("after hostile batch %d the well-behaved client %s was not served: %v; %d connection goroutines blocked on a channel or lock in the dump; log tail:\n%s", batch, s.name, perr, blocked, tailOf(ch.logPath, 2500))})
			return
		}
		// hostile sockets are closed; transfer handlers sleep 3 s before returning: wait for the counters to settle
		var st map[string]any
		ok := false
		// The leftover handlers may still be working through what the hostile sessions asked for (the stores rewrite
		// their files on every update): the wait goes on as long as the numbers keep moving, and gives up only after
		// 30 s without any change (or 5 min in total).
		lastChange, lastSeen, began := time.Now(), "", time.Now()
		for time.Since(lastChange) < 30*time.Second && time.Since(began) < 5*time.Minute {
			st, err = ch.stats()
			if err != nil {
				break
			}
			stats, _ := st["stats"].(map[string]any)
			if fmt.Sprint(st["users"]) == baseUsers && fmt.Sprint(stats["CurrentlyConnected"]) == fmt.Sprint(len(sents)) &&
				fmt.Sprint(stats["DownloadsInProgress"]) == "0" && fmt.Sprint(stats["UploadsInProgress"]) == "0" {
				ok = true
				break
			}
			if seen := fmt.Sprint(st["users"], stats["CurrentlyConnected"], stats["DownloadsInProgress"], stats["UploadsInProgress"]); seen != lastSeen {
				lastSeen, lastChange = seen, time.Now()
			}
			time.Sleep(250 * time.Millisecond)
		}
		if died(fmt.Sprintf("%s/batch%d", b.Name, batch), &hs[0]) {
			return
		}
		classes := map[string]bool{}
		for _, h := range hs {
			for _, c := range strings.Split(strings.TrimPrefix(h.class, "mutated:"), ",") {
				classes[c] = true
			}
		}
		obs := map[string]int{"hostile_connections": len(hs), "sentinel_round_trips": len(sents), "batches": 1}
		if st != nil {
			if p, ok := st["panics"].(float64); ok {
				obs["recovered_panics_seen_so_far"] = int(p)
			}
		}
		if !ok {
			// what are the leftover connection handlers doing?
			ch.cmd.Process.Signal(syscall.SIGQUIT)
			select {
			case <-ch.exited:
			case <-time.After(20 * time.Second):
			}
			dump, _ := os.ReadFile(ch.logPath)
			var busy []string
			for _, g := range strings.Split(string(dump), "\n\n") {
				if strings.Contains(g, "handleNewConnection") && !strings.Contains(g, "[IO wait") && strings.Contains(strings.SplitN(g, "\n", 2)[0], " gp=") {
					if len(g) > 1800 {
						g = g[:1800]
					}
					busy = append(busy, g)
				}
			}
			if len(busy) > 3 {
				busy = busy[:3]
			}
			em.Emit(core.Result{Case: fmt.Sprintf("%s/batch%d/residue", b.Name, batch), Class: "residue", Verdict: core.Violated, Key: "C03/state-residue", Obs: obs,
				Msg: fmt.Sprintf("30 s without any change after every hostile socket of batch %d was closed the server still reports users %v (baseline %s) and stats %v (baseline: %d connected, 0 transfers in progress); connection handlers not waiting for input:\n%s", batch, st["users"], baseUsers, st["stats"], len(sents), strings.Join(busy, "\n\n"))})
			return
		}
		// one result per distinct class seen in this batch keeps the evidence honest about what was exercised
		first := true
		for c := range classes {
			res := core.Result{Case: fmt.Sprintf("%s/batch%d/%s", b.Name, batch, c), Class: c, Verdict: core.Held}
			if first {
				res.Obs = obs
				res.Sample = map[string]any{"batch": batch, "hostile_connections": len(hs), "example_class": hs[0].class, "example_stream_prefix_hex": fmt.Sprintf("%x", hs[0].stream[:min(len(hs[0].stream), 64)])}
				first = false
			}
			em.Emit(res)
		}
	}
}

// ---------------------------------------------------------------------------------------------
// monitor B: in-process fuzzing of mutated transactions

func runInproc(b core.Batch, a args, em *core.Emitter) {
	r := core.NewRand(b.Seed, uint64(a.Index), 0x3B)
	srv, err := fixture.New(fixture.Options{Accounts: accounts(), Agreement: "agreement", Board: strings.Repeat("board line\r", 100), NewsYAML: newsYAML, Files: files})
	if err != nil {
		em.Emit(core.Result{Case: b.Name, Verdict: core.Inconclusive, Msg: err.Error()})
		return
	}
	defer srv.Close()
	// widen the window in which a connection is registered but its login is still being completed
	srv.OnEvent = func(name string, cid [2]byte, x uint32) {
		if name == "conn.registered" && cid[1]%4 == 0 {
			time.Sleep(200 * time.Microsecond)
		}
	}
	sent, err := refclient.LoginAs(srv, "10.3.0.1:1", "sadmin", "", "S-Admin")
	if err != nil {
		em.Emit(core.Result{Case: b.Name, Verdict: core.Inconclusive, Msg: err.Error()})
		return
	}
	sent2, _ := refclient.LoginAs(srv, "10.3.0.2:1", "sguest", "", "S-Guest")
	total := 0
	infoProbes := 0
	for batch := 0; batch < a.Batches; batch++ {
		id := fmt.Sprintf("%s/batch%d", b.Name, batch)
		var wg sync.WaitGroup
		classes := map[string]bool{}
		var cmu sync.Mutex
		var streams [][]byte
		var neverReads []bool
		for k := 0; k < 8; k++ {
			h := hostileControl(r)
			streams = append(streams, h.stream)
			neverReads = append(neverReads, h.noRead)
			for _, c := range strings.Split(strings.TrimPrefix(h.class, "mutated:"), ",") {
				classes[c] = true
			}
		}
		em.Begin(id, map[string]any{"first_stream_hex": fmt.Sprintf("%x", streams[0][:min(len(streams[0]), 6000)])})
		var clients []*refclient.Client
		for k, s := range streams {
			wg.Add(1)
			cl := refclient.Connect(srv, fmt.Sprintf("10.3.%d.%d:%d", 1+batch%200, 1+k, 1000+batch))
			if neverReads[k] {
				// a peer that never reads: once 32 KiB are waiting for it, the server's writes to it block (as they do
				// on a socket whose buffers are full) until the connection goes away
				cl.Conn.Backpressure = 32 << 10
			}
			cmu.Lock()
			clients = append(clients, cl)
			cmu.Unlock()
			go func(cl *refclient.Client, s []byte) {
				defer wg.Done()
				cl.Conn.Send(s)
				cl.Conn.WaitIdle(refclient.Watchdog)
			}(cl, s)
			total++
		}
		wg.Wait()
		// while the hostile sessions are still connected (with whatever state their requests left behind: pending
		// transfers with odd size fields, odd names and icons), the administrator sentinel lists the users and asks for
		// the client info of every one of them: each of its requests must be answered (a reply or an error reply)
		if ul, ok := sent.CallDirect(300); !ok {
			em.Emit(core.Result{Case: id, Class: "sentinel", Verdict: core.Violated, Key: "C03/sentinel-not-served",
				Msg: fmt.Sprintf("with the hostile sessions of batch %d still connected the administrator sentinel got no reply to get-user-name-list", batch)})
			return
		} else {
			for _, d := range ul.GetAll(300) {
				if len(d) < 2 {
					continue
				}
				if _, ok := sent.CallDirect(303, rc.F(103, d[:2])); !ok {
					em.Emit(core.Result{Case: id, Class: "sentinel", Verdict: core.Violated, Key: "C03/sentinel-not-served",
						Replay: map[string]any{"hostile_streams_hex": hexAll(streams)},
						Msg:    fmt.Sprintf("with the hostile sessions of batch %d still connected the administrator sentinel got no reply to get-client-info for listed user id %x (record %x); recovered handler panics so far: %d", batch, d[:2], d, srv.Panics.Load())})
					return
				}
				infoProbes++
			}
		}
		// ... and reads everything a hostile session may have written to: the message board, the news, the file lists
		type probe struct {
			what string
			typ  int
			fs   []rc.Field
		}
		probes := []probe{{"message board", 101, nil}, {"news categories", 370, nil}, {"news article list", 371, []rc.Field{rc.F(325, rc.PathS("cat"))}},
			{"file list of the root", 200, nil}, {"file list of Uploads", 200, []rc.Field{rc.F(202, rc.PathS("Uploads"))}}, {"file list of public", 200, []rc.Field{rc.F(202, rc.PathS("public"))}}}
		for k := 1; k <= 3; k++ {
			probes = append(probes, probe{fmt.Sprintf("news article %d", k), 400, []rc.Field{rc.F(325, rc.PathS("cat")), rc.F(326, rc.U32(k)), rc.FS(327, "text/plain")}})
		}
		for _, p := range probes {
			if _, ok := sent.CallDirect(p.typ, p.fs...); !ok {
				em.Emit(core.Result{Case: id, Class: "sentinel", Verdict: core.Violated, Key: "C03/sentinel-not-served",
					Replay: map[string]any{"hostile_streams_hex": hexAll(streams)},
					Msg:    fmt.Sprintf("with the hostile sessions of batch %d still connected the administrator sentinel got no reply to its request for the %s (type %d); recovered handler panics so far: %d", batch, p.what, p.typ, srv.Panics.Load())})
				return
			}
			infoProbes++
		}
		for _, cl := range clients {
			cl.Hangup()
		}
		// the sentinels must still be served: wait for the reply on the sentinel's own connection only (another
		// connection's handler may legitimately still be busy)
		direct := func(cl *refclient.Client, typ int) (rc.Tran, bool) {
			id := cl.Send(typ)
			deadline := time.Now().Add(30 * time.Second)
			for time.Now().Before(deadline) {
				for _, t := range cl.Inbox() {
					if t.IsReply == 1 && t.ID == id {
						return t, true
					}
				}
				if cl.Conn.HandlerDone() || cl.FrameErr != nil {
					return rc.Tran{}, false
				}
				time.Sleep(200 * time.Microsecond)
			}
			return rc.Tran{}, false
		}
		_, ok1 := direct(sent, 500)
		_, ok2 := direct(sent2, 500)
		if !ok1 || !ok2 {
			dump := serverGoroutines()
			v, key := core.Inconclusive, ""
			if sent.Conn.HandlerDone() || sent2.Conn.HandlerDone() || sent.FrameErr != nil || strings.Contains(dump, "[chan send") || strings.Contains(dump, "[sync.Mutex.Lock") || strings.Contains(dump, "[semacquire") {
				v, key = core.Violated, "C03/sentinel-not-served"
			}
			em.Emit(core.Result{Case: id, Class: "sentinel", Verdict: v, Key: key,
				Msg: fmt.Sprintf("after hostile batch %d a well-behaved client got no reply within 30 s (admin ok=%v, guest ok=%v, admin handler done=%v frame error=%v)\nserver goroutines:\n%s", batch, ok1, ok2, sent.Conn.HandlerDone(), sent.FrameErr, dump)})
			return
		}
		// once the hostile connections are gone the user list is back to the sentinels (handlers may need a moment)
		users := -1
		var names []string
		for wait := 0; wait < 100; wait++ {
			ul, ok := direct(sent, 300)
			if !ok {
				break
			}
			us, err := refclient.UserList(ul)
			if err != nil {
				break
			}
			users = len(us)
			names = names[:0]
			for _, u := range us {
				names = append(names, string(u.Name))
			}
			if users == 2 {
				break
			}
			time.Sleep(100 * time.Millisecond)
		}
		if users != 2 {
			em.Emit(core.Result{Case: id, Class: "residue", Verdict: core.Violated, Key: "C03/state-residue",
				Msg: fmt.Sprintf("10 s after every hostile connection of batch %d was closed the user list still holds %d users %q, want the 2 sentinels; server goroutines:\n%s", batch, users, names, serverGoroutines())})
			return
		}
		if n := srv.S.Stats.Get(hotline.StatCurrentlyConnected); n != 2 {
			em.Emit(core.Result{Case: id, Class: "residue", Verdict: core.Violated, Key: "C03/state-residue",
				Msg: fmt.Sprintf("CurrentlyConnected is %d after batch %d, the sentinels account for 2", n, batch)})
			return
		}
		first := true
		for c := range classes {
			res := core.Result{Case: id + "/" + c, Class: c, Verdict: core.Held}
			if first {
				res.Obs = map[string]int{"inprocess_hostile_connections": len(streams), "recovered_panics": int(srv.Panics.Load()), "client_info_probes_during_hostile_sessions": infoProbes}
				infoProbes = 0
				srv.Panics.Store(0)
				first = false
			}
			em.Emit(res)
		}
		em.Emit(core.Result{Case: id, Verdict: core.Held})
	}
}

// serverGoroutines returns the stacks of goroutines that are inside the server's connection handling.
func serverGoroutines() string {
	buf := make([]byte, 1<<22)
	n := runtime.Stack(buf, true)
	var keep []string
	for _, g := range strings.Split(string(buf[:n]), "\n\n") {
		if strings.Contains(g, "jhalter/mobius") && !strings.Contains(g, "processOutbox()\n") {
			if len(g) > 1500 {
				g = g[:1500]
			}
			keep = append(keep, g)
		}
	}
	if len(keep) > 8 {
		keep = keep[:8]
	}
	return strings.Join(keep, "\n\n")
}

func hexAll(ss [][]byte) []string {
	var out []string
	for _, s := range ss {
		if len(s) > 4000 {
			s = s[:4000]
		}
		out = append(out, fmt.Sprintf("%x", s))
	}
	return out
}
