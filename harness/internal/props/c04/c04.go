// Package c04: nothing is served before a successful login.
package c04

import (
	"bytes"
	"encoding/json"
	"fmt"
	"strings"
	"sync"
	"time"

	"verifharness/internal/core"
	"verifharness/internal/fixture"
	"verifharness/internal/refclient"
	rc "verifharness/internal/refcodec"
)

func init() {
	core.Register(&core.Simple{
		Id: "C04", Lvl: "exploration", Quick: 1500, Thorough: 60000, PerBatch: 750, Width: 32, Timeout: 900,
		RuleText: "each case builds a generated account database (1-5 accounts, with/without guest, passwords 0..72 arbitrary bytes), logs two observers in, snapshots config dir + file root + chat/transfer tables, then lets a peer send generated handshake bytes, a first transaction with a (login,password) variant and 0-3 appended privileged requests; the reference predicate (valid handshake, account exists with empty login = guest, password equals current password; path-like or padded spellings of a login are not that login) decides whether the peer must be logged in; in 3 of 7 cases an administrator first renames or deletes an account, changes its password, or has a creation refused (login spelled so that it names an existing account's file) through the protocol, and the peer then presents the formerly valid / refused credentials. distinct = (handshake class, credential class, appended request type, expected outcome); a race-build stress batch lets 60-120 peers fail to log in concurrently while three observers broadcast continuously and a hook delay stretches every registration. non-trivial = every case (each runs the real handleNewConnection)",
		Case:     runCase,
		Extra: func(tier string, seed int64) []core.Batch {
			n := 12
			if tier == "thorough" {
				n = 200
			}
			a, _ := json.Marshal(map[string]int{"runs": n})
			return []core.Batch{{Name: "stress", Race: true, Args: a, Timeout: 1200}}
		},
		RunExtra: runStress,
	})
}

// runStress (race build): many peers fail to log in while observers keep broadcasting and a hook delay holds
// every registration open; whatever a failing peer receives must still be just the handshake reply and at most
// one error reply, and the observers must never be told about it.
func runStress(b core.Batch, em *core.Emitter) {
	var a struct {
		Runs int `json:"runs"`
	}
	json.Unmarshal(b.Args, &a)
	core.Parallel(a.Runs, 4, func(run int) {
		id := fmt.Sprintf("C04/stress/%d", run)
		core.SafeCase(em, id, func() {
			em.Begin(id, nil)
			r := core.NewRand(b.Seed, uint64(run), 0x04)
			srv, err := fixture.New(fixture.Options{Agreement: "AGREEMENT", Board: "BOARD\r", Accounts: []fixture.Account{
				{Login: "guest", Name: "guest", Password: "guestpw", Access: fixture.GuestBits()},
				{Login: "admin", Name: "admin", Access: rc.AllBits()},
				{Login: "locked", Name: "Locked", Password: "the-right-password", Access: rc.AllBits()},
			}})
			if err != nil {
				em.Emit(core.Result{Case: id, Verdict: core.Inconclusive, Msg: err.Error()})
				return
			}
			defer srv.Close()
			srv.OnEvent = func(name string, cid [2]byte, x uint32) {
				if name == "conn.registered" {
					time.Sleep(time.Duration(100+int(cid[1])%7*100) * time.Microsecond)
				}
			}
			var obs []*refclient.Client
			for i := 0; i < 3; i++ {
				o, err := refclient.LoginAs(srv, fmt.Sprintf("10.4.9.%d:1", i+1), "admin", "", fmt.Sprintf("Obs%d", i))
				if err != nil {
					em.Emit(core.Result{Case: id, Verdict: core.Inconclusive, Msg: err.Error()})
					return
				}
				obs = append(obs, o)
			}
			stop := make(chan struct{})
			var bwg sync.WaitGroup
			for i, o := range obs {
				bwg.Add(1)
				go func(i int, o *refclient.Client) {
					defer bwg.Done()
					for k := 0; ; k++ {
						select {
						case <-stop:
							return
						default:
						}
						o.Send(105, rc.FS(101, fmt.Sprintf("chatter-%d-%d", i, k)))
						o.Send(355, rc.FS(101, "broadcast"))
						o.Send(304, rc.FS(102, fmt.Sprintf("Obs%d", i)), rc.F(104, rc.U16(k)))
						time.Sleep(50 * time.Microsecond)
					}
				}(i, o)
			}
			nPeers := 60 + r.Intn(60)
			peers := make([]*refclient.Client, nPeers)
			var wg sync.WaitGroup
			for p := 0; p < nPeers; p++ {
				wg.Add(1)
				go func(p int) {
					defer wg.Done()
					rr := core.NewRand(b.Seed, uint64(run), uint64(p), 4)
					cl := refclient.Connect(srv, fmt.Sprintf("10.4.%d.%d:%d", 10+p/250, 1+p%250, 5000+p))
					peers[p] = cl
					login := core.Pick(rr, []string{"locked", "guest", "nobody", "admin2", "locked"})
					pw := core.Pick(rr, []string{"wrong", "", "the-right-passwor", "the-right-password-", "GUESTPW"})
					t1 := rc.Tran{Type: 107, ID: 1, Fields: []rc.Field{rc.F(105, rc.Obfuscate([]byte(login))), rc.F(106, rc.Obfuscate([]byte(pw))), rc.FS(102, "Intruder")}}
					stream := append(rc.Handshake(), t1.Encode()...)
					stream = append(stream, rc.Tran{Type: 300, ID: 2}.Encode()...)
					stream = append(stream, rc.Tran{Type: 105, ID: 3, Fields: []rc.Field{rc.FS(101, "INTRUDER-CHAT")}}.Encode()...)
					cl.Conn.Send(stream)
					select {
					case <-cl.Conn.Done:
					case <-time.After(refclient.Watchdog):
					}
				}(p)
			}
			wg.Wait()
			close(stop)
			bwg.Wait()
			if !srv.Quiesce(2 * refclient.Watchdog) {
				em.Emit(core.Result{Case: id, Verdict: core.Inconclusive, Msg: "no quiescence"})
				return
			}
			res := core.Result{Case: id, Class: fmt.Sprintf("stress/peers%d", nPeers/30), Verdict: core.Held, Obs: map[string]int{"stress_failing_peers": nPeers},
				Sample: map[string]any{"failing_peers": nPeers, "observers_broadcasting": len(obs)}}
			for p, cl := range peers {
				out := cl.Conn.Out()
				if !cl.Conn.HandlerDone() {
					res.Verdict, res.Key, res.Msg = core.Violated, "C04/stress/failed-login-stays-open", fmt.Sprintf("peer %d with wrong credentials was not disconnected", p)
					break
				}
				if !bytes.HasPrefix(out, rc.HandshakeReply) {
					continue
				}
				frames, rest, ferr := rc.SplitFrames(out[8:])
				var fl []rc.Tran
				for _, f := range frames {
					if f.Type != fixture.MarkerType {
						fl = append(fl, f)
					}
				}
				if ferr != nil || len(rest) > 0 || len(fl) > 1 || (len(fl) == 1 && !(fl[0].IsReply == 1 && fl[0].Err != 0 && fl[0].ID == 1)) {
					res.Verdict, res.Key = core.Violated, "C04/stress/unauth-output"
					res.Msg = fmt.Sprintf("peer %d failed to log in while others were broadcasting, yet it received %d transactions (parse error %v): %v", p, len(fl), ferr, fl)
					break
				}
				res.Obs["stress_streams_checked"]++
			}
			for _, o := range obs {
				for _, t := range o.Inbox() {
					if t.Type == 302 {
						res.Verdict, res.Key = core.Violated, "C04/stress/observer-disturbed"
						res.Msg = fmt.Sprintf("an observer received a user-left notice although only failing logins came and went: %v", t)
					}
					if nm, _ := t.Get(102); t.Type == 301 && string(nm) == "Intruder" {
						res.Verdict, res.Key = core.Violated, "C04/stress/observer-disturbed"
						res.Msg = "an observer was told about a user who never logged in"
					}
				}
			}
			em.Emit(res)
		})
	})
}

type account struct {
	login, pw string
	bits      []byte
}

var appendTypes = []string{"none", "postboard", "deletefile", "newuser", "chat", "broadcast", "filelist", "download", "newfolder", "postnews", "setuser", "upload"}

func appended(kind string, c *refclient.Client) []byte {
	mk := func(typ int, fs ...rc.Field) []byte {
		return rc.Tran{Type: uint16(typ), ID: c.NewID(), Fields: fs}.Encode()
	}
	switch kind {
	case "postboard":
		return mk(103, rc.FS(101, "INTRUDER-POST"))
	case "deletefile":
		return mk(204, rc.FS(201, "victim.txt"))
	case "newuser":
		return mk(350, rc.F(105, rc.Obfuscate([]byte("intruder"))), rc.FS(102, "intruder"), rc.F(106, rc.Obfuscate([]byte("x"))), rc.F(110, rc.AllBits()))
	case "chat":
		return mk(105, rc.FS(101, "INTRUDER-CHAT"))
	case "broadcast":
		return mk(355, rc.FS(101, "INTRUDER-BROADCAST"))
	case "filelist":
		return mk(200)
	case "download":
		return mk(202, rc.FS(201, "victim.txt"))
	case "newfolder":
		return mk(205, rc.FS(201, "intruder-folder"))
	case "postnews":
		return mk(410, rc.F(325, rc.PathS("cat")), rc.F(326, rc.U32(0)), rc.FS(328, "t"), rc.FS(333, "INTRUDER-ART"))
	case "setuser":
		return mk(353, rc.F(105, rc.Obfuscate([]byte("obsuser"))), rc.FS(102, "pwned"), rc.F(110, rc.AllBits()))
	case "upload":
		return mk(203, rc.FS(201, "intruder.bin"), rc.F(108, rc.U32(10)))
	}
	return nil
}

func runCase(c *core.Case) {
	r := c.R
	// ---- account database ----
	accs := []account{
		{"obsadmin", "obs-admin-pw", rc.AllBits()},
		{"obsuser", "", fixture.GuestBits()},
	}
	hasGuest := r.Chance(2, 3)
	if hasGuest {
		pw := ""
		if r.Chance(1, 4) {
			pw = string(r.Printable(1 + r.Intn(8)))
		}
		accs = append(accs, account{"guest", pw, fixture.GuestBits()})
	}
	n := 1 + r.Intn(3)
	for i := 0; i < n; i++ {
		pl := core.Pick(r, []int{0, 1, 2, 8, 20, 71, 72})
		pw := r.Bytes(pl)
		for j := range pw { // any byte except those that make the obfuscated form contain NUL is fine for bcrypt; keep all
			_ = j
		}
		login := strings.ToLower(string(r.Printable(1+r.Intn(12)))) + fmt.Sprint(i)
		login = strings.ReplaceAll(login, " ", "_")
		bits := r.Bytes(8)
		accs = append(accs, account{login, string(pw), bits})
	}
	var fx []fixture.Account
	for _, a := range accs {
		fx = append(fx, fixture.Account{Login: a.login, Name: "N-" + a.login, Password: a.pw, Access: a.bits})
	}
	// accounts whose stored hash is unusable: nobody may log in to them with any password
	brokenKind := core.Pick(r, []string{"", "", "", "emptyhash", "garbagehash", "longpw-via-protocol"})
	if brokenKind == "emptyhash" || brokenKind == "garbagehash" {
		fx = append(fx, fixture.Account{Login: "broken", Name: "Broken", Access: rc.AllBits(), RawHash: map[string]string{"emptyhash": "-", "garbagehash": "not-a-bcrypt-hash"}[brokenKind]})
	}
	srv, err := fixture.New(fixture.Options{Accounts: fx, Agreement: "AGREEMENT-TEXT", Board: "BOARD-TEXT\r",
		NewsYAML: "Categories:\n  cat:\n    Type: [0, 3]\n    Name: cat\n    Articles: {}\n    SubCats: {}\n",
		Files:    func(root string) { fixture.WriteFile(root+"/victim.txt", "victim-data") }})
	if err != nil {
		c.Unsure("fixture: %v", err)
		return
	}
	defer srv.Close()
	obsA, err := refclient.LoginAs(srv, "10.9.0.1:5000", "obsadmin", "obs-admin-pw", "ObsAdmin")
	if err != nil {
		c.Unsure("observer login: %v", err)
		return
	}
	obsU, err := refclient.LoginAs(srv, "10.9.0.2:5000", "obsuser", "", "ObsUser")
	if err != nil {
		c.Unsure("observer login: %v", err)
		return
	}
	if brokenKind == "longpw-via-protocol" {
		// an administrator creates an account whose password exceeds bcrypt's 72-byte limit
		long := bytes.Repeat([]byte("L"), 73+r.Intn(60))
		if rep, ok := obsA.Call(350, rc.F(105, rc.Obfuscate([]byte("broken"))), rc.FS(102, "Broken"), rc.F(106, rc.Obfuscate(long)), rc.F(110, rc.Bitmap(2, 9, 10))); !ok || rep.Err != 0 {
			brokenKind = ""
		}
	}
	// the account database has a history: before the peer connects an administrator may have renamed an account,
	// deleted one or changed a password — "existing account" and "current password" mean the state after that
	history := core.Pick(r, []string{"", "", "", "rename", "delete", "password", "rename", "refused-create"})
	var stale []account // credentials that were valid once and must be refused now
	if history != "" && len(accs) > 3 {
		k := 3 + r.Intn(len(accs)-3) // never the observers or guest
		if accs[2].login != "guest" {
			k = 2 + r.Intn(len(accs)-2)
		}
		old := accs[k]
		switch history {
		case "rename":
			nl := old.login + "-renamed"
			if rep, ok := obsA.Call(349, rc.F(101, rc.SubFields(rc.F(101, rc.Obfuscate([]byte(old.login))), rc.F(105, rc.Obfuscate([]byte(nl))), rc.FS(102, "N-"+nl), rc.F(106, []byte{0}), rc.F(110, rc.Bitmap(2, 9))))); ok && rep.Err == 0 {
				accs[k].login = nl
				stale = append(stale, old)
			}
		case "delete":
			if rep, ok := obsA.Call(351, rc.F(105, rc.Obfuscate([]byte(old.login)))); ok && rep.Err == 0 {
				accs = append(accs[:k:k], accs[k+1:]...)
				stale = append(stale, old)
			}
		case "refused-create":
			// an administrator tries to create an account under a spelling that names an existing account's file; the
			// request is refused, so those credentials must not work afterwards either
			alias := core.Pick(r, []string{"./" + old.login, old.login + "/", "x/../" + old.login, "/" + old.login})
			pw := "refused-" + string(r.Printable(6))
			if rep, ok := obsA.Call(350, rc.F(105, rc.Obfuscate([]byte(alias))), rc.FS(102, "Refused"), rc.F(106, rc.Obfuscate([]byte(pw))), rc.F(110, rc.Bitmap(2, 9))); ok && rep.Err != 0 {
				stale = append(stale, account{alias, pw, nil})
			}
		case "password":
			np := "changed-" + string(r.Printable(6))
			if rep, ok := obsA.Call(353, rc.F(105, rc.Obfuscate([]byte(old.login))), rc.FS(102, "N-"+old.login), rc.F(110, rc.Bitmap(2, 9)), rc.F(106, rc.Obfuscate([]byte(np)))); ok && rep.Err == 0 && np != old.pw {
				accs[k].pw = np
				stale = append(stale, old)
			}
		}
	}
	if !srv.Quiesce(refclient.Watchdog) {
		c.Unsure("no quiescence after observer logins")
		return
	}
	obsA.Drain()
	obsU.Drain()

	// ---- the peer's bytes ----
	hsClass := core.Pick(r, []string{"valid", "valid", "valid", "valid", "valid", "valid-otherversion", "badmagic", "badsub", "short", "garbage"})
	hs := rc.Handshake()
	hsValid := true
	switch hsClass {
	case "valid-otherversion":
		copy(hs[8:], r.Bytes(4))
	case "badmagic":
		hs[r.Intn(4)] ^= byte(1 << uint(r.Intn(8)))
		hsValid = false
	case "badsub":
		hs[4+r.Intn(4)] ^= byte(1 << uint(r.Intn(8)))
		hsValid = false
	case "short":
		hs = hs[:r.Intn(12)]
		hsValid = false
	case "garbage":
		hs = r.Bytes(12)
		hsValid = string(hs[:8]) == "TRTPHOTL"
	}

	target := accs[2+r.Intn(len(accs)-2)] // never the observers' accounts
	if r.Chance(1, 6) {
		target = accs[0]
	}
	if brokenKind != "" && r.Chance(2, 3) {
		target = account{"broken", "\x00unknowable", nil}
	}
	useStale := len(stale) > 0 && r.Chance(2, 3)
	if useStale {
		target = stale[0] // once valid, now renamed away / deleted / superseded
	}
	credClass := core.Pick(r, []string{"exact", "exact", "exact", "bitflip", "prefix", "extension", "emptypw", "otherpw", "unknownlogin", "emptylogin", "emptylogin-pw", "caselogin", "aliaslogin", "aliaslogin", "nofields", "truncated-frame"})
	login, pw := []byte(target.login), []byte(target.pw)
	switch credClass {
	case "bitflip":
		if len(pw) == 0 {
			pw = []byte{byte(1 << uint(r.Intn(8)))}
		} else {
			pw = append([]byte{}, pw...)
			pw[r.Intn(len(pw))] ^= byte(1 << uint(r.Intn(8)))
		}
	case "prefix":
		if len(pw) > 0 {
			pw = pw[:len(pw)-1]
		} else {
			credClass = "exact"
		}
	case "extension":
		if len(pw) < 72 {
			pw = append(append([]byte{}, pw...), byte(1+r.Intn(255)))
		} else {
			credClass = "exact"
		}
	case "emptypw":
		pw = nil
	case "otherpw":
		pw = []byte(accs[0].pw)
	case "unknownlogin":
		login = []byte("nobody-" + string(r.Printable(4)))
	case "emptylogin":
		login, pw = nil, nil
	case "emptylogin-pw":
		login, pw = nil, []byte("x")
	case "caselogin":
		login = []byte(strings.ToUpper(target.login))
	case "aliaslogin":
		// spellings that name the same account FILE once cleaned as a path, or the same string once trimmed; none of
		// them is the account's login
		l := target.login
		login = []byte(core.Pick(r, []string{"./" + l, l + "/", "/" + l, "x/../" + l, l + "/.", "../Users/" + l, l + "\x00", l + " ", " " + l, l + ".yaml", "//" + l}))
	}
	// reference predicate
	effLogin := string(login)
	if credClass == "nofields" {
		effLogin, pw = "", nil
	}
	if effLogin == "" {
		effLogin = "guest"
	}
	expectIn := false
	for _, a := range accs {
		if a.login == effLogin && bytes.Equal(bcryptKey([]byte(a.pw)), bcryptKey(pw)) {
			expectIn = true
		}
	}
	if !hsValid || credClass == "truncated-frame" {
		expectIn = false
	}
	if target.login == "broken" && credClass == "exact" {
		credClass = "emptypw" // the account has no usable password: every attempt must fail
		pw = nil
	}

	// ban classes: the peer's address may be banned (permanently / temporarily, not yet expired) or carry an
	// expired temporary ban (which must not matter)
	peerIP := fmt.Sprintf("10.%d.%d.%d", 1+r.Intn(8), r.Intn(256), 1+r.Intn(250))
	banClass := core.Pick(r, []string{"", "", "", "", "", "", "perm", "temp", "expired", "other-address"})
	banned := false
	switch banClass {
	case "perm":
		srv.S.BanList.Add(peerIP, nil)
		banned = true
	case "temp":
		t := time.Now().Add(time.Duration(1+r.Intn(29)) * time.Minute)
		srv.S.BanList.Add(peerIP, &t)
		banned = true
	case "expired":
		t := time.Now().Add(-time.Duration(1+r.Intn(600)) * time.Minute)
		srv.S.BanList.Add(peerIP, &t)
	case "other-address":
		srv.S.BanList.Add(peerIP+"0", nil)
		srv.S.BanList.Add("1"+peerIP, nil)
	}
	if banned {
		expectIn = false
	}

	peer := refclient.Connect(srv, fmt.Sprintf("%s:%d", peerIP, 1024+r.Intn(60000)))
	firstType := 107
	if r.Chance(1, 8) {
		firstType = core.Pick(r, []int{105, 103, 300, 500, 0})
	}
	var fields []rc.Field
	if credClass != "nofields" {
		fields = []rc.Field{rc.F(105, rc.Obfuscate(login)), rc.F(106, rc.Obfuscate(pw))}
		if r.Bool() {
			fields = append(fields, rc.FS(102, "Peer"), rc.F(104, rc.U16(5)), rc.F(160, rc.U16(190)))
		}
	}
	t1 := rc.Tran{Type: uint16(firstType), ID: peer.NewID(), Fields: fields}
	t1b := t1.Encode()
	if credClass == "truncated-frame" {
		t1b = t1b[:r.Intn(len(t1b))]
	}
	if hsClass == "short" {
		// the first 12 bytes of the stream are the handshake whatever follows: send nothing after a short one
		t1b, credClass = nil, "truncated-frame"
	}
	nApp := r.Intn(4)
	appKind := "none"
	var tail []byte
	if credClass != "truncated-frame" {
		for i := 0; i < nApp; i++ {
			appKind = core.Pick(r, appendTypes[1:])
			tail = append(tail, appended(appKind, peer)...)
		}
	}
	if useStale {
		credClass = "stale-" + history + "/" + credClass
	}
	c.Describe(fmt.Sprintf("%s/%s/%s/ban=%s/%s/in=%v", hsClass, credClass, appKind, banClass, brokenKind, expectIn),
		map[string]any{"handshake": fmt.Sprintf("%x", hs), "first_transaction": t1.String(), "credential_class": credClass, "appended": appKind, "guest_account": hasGuest, "expect_logged_in": expectIn})

	before := fixture.Snapshot(srv.Dir)
	chats0, transfers0 := srv.S.VerifTableSizes()

	// delivery: sometimes everything in one segment, sometimes handshake first
	if r.Bool() {
		peer.Conn.Send(append(append(append([]byte{}, hs...), t1b...), tail...))
	} else {
		peer.Conn.Send(hs, append(append([]byte{}, t1b...), tail...))
	}
	if !peer.Conn.WaitIdle(refclient.Watchdog) {
		c.Unsure("peer connection never became idle")
		return
	}

	if expectIn {
		c.Count("expected_in", 1)
		srv.Quiesce(refclient.Watchdog)
		if !bytes.HasPrefix(peer.Conn.Out(), rc.HandshakeReply) {
			c.Fail("C04/valid-handshake-refused", "valid handshake %x not answered with TRTP/0: got %x", hs, head(peer.Conn.Out(), 16))
			return
		}
		peer.SkipHandshakeReply()
		var reply *rc.Tran
		for _, t := range peer.Inbox() {
			if t.IsReply == 1 && t.ID == t1.ID {
				tt := t
				reply = &tt
				break
			}
		}
		if reply == nil || reply.Err != 0 {
			c.Fail("C04/valid-login-refused", "login=%q with the account's current password (%d bytes) should succeed; reply: %v, handler done=%v", effLogin, len(pw), reply, peer.Conn.HandlerDone())
			return
		}
		if peer.Conn.HandlerDone() {
			c.Fail("C04/valid-login-closed", "connection closed after a successful login")
			return
		}
		if _, ok := peer.Call(500); !ok {
			c.Fail("C04/valid-login-not-served", "keep-alive after successful login not answered")
		}
		peer.Hangup()
		return
	}

	// ---- must not be logged in ----
	c.Count("expected_out", 1)
	if !peer.Conn.HandlerDone() {
		// the server may legitimately be waiting for the rest of a short handshake / truncated frame
		peer.Conn.CloseWrite()
		select {
		case <-peer.Conn.Done:
		case <-time.After(refclient.Watchdog):
			c.Unsure("handler did not return after EOF")
			return
		}
		if hsValid && credClass != "truncated-frame" {
			c.Count("stayed_open_until_eof", 1)
			// it stayed open although the login must fail: was it served?
		}
	}
	if !srv.Quiesce(refclient.Watchdog) {
		c.Unsure("no quiescence")
		return
	}
	out := peer.Conn.Out()
	rest := out
	if hsValid {
		if !bytes.HasPrefix(out, rc.HandshakeReply) {
			c.Fail("C04/handshake-reply", "valid handshake not answered with TRTP/0: %x", head(out, 16))
			return
		}
		rest = out[8:]
	} else if len(out) >= 8 && string(out[:4]) == "TRTP" {
		rest = out[8:] // a handshake reply carrying an error code is allowed
	}
	frames, tailBytes, ferr := rc.SplitFrames(rest)
	var fl []rc.Tran
	for _, f := range frames {
		if f.Type != fixture.MarkerType {
			fl = append(fl, f)
		}
	}
	if ferr != nil || len(tailBytes) != 0 {
		c.Fail("C04/unauth-stream-garbage", "bytes sent to an unauthenticated peer do not parse: err=%v tail=%d bytes: %x", ferr, len(tailBytes), head(rest, 64))
	} else if !hsValid && len(fl) > 0 {
		c.Fail("C04/served-without-handshake", "peer with invalid handshake %x received %d transaction(s): %v", hs, len(fl), fl[0])
	} else if len(fl) > 1 {
		c.Fail("C04/unauth-extra-output", "unauthenticated peer (%s/%s login=%q sent password %x, account password %x) received %d transactions, allowed at most one error reply: %v", hsClass, credClass, effLogin, pw, target.pw, len(fl), fl)
	} else if len(fl) == 1 && banned && hsValid {
		if f := fl[0]; !(f.IsReply == 0 && f.Type == 104) {
			c.Fail("C04/banned-peer-output", "peer from a banned address (%s) received %v, allowed is one ban notice", banClass, f)
		}
	} else if len(fl) == 1 {
		f := fl[0]
		if !(f.IsReply == 1 && f.Err != 0) {
			c.Fail("C04/unauth-nonerror-output", "unauthenticated peer (%s/%s login=%q) received %v", hsClass, credClass, effLogin, f)
		} else if credClass != "truncated-frame" && f.ID != t1.ID {
			c.Fail("C04/unauth-wrong-reply-id", "error reply id %08x != login transaction id %08x", f.ID, t1.ID)
		}
	}
	// state untouched
	if d := fixture.Diff(before, fixture.Snapshot(srv.Dir)); len(d) > 0 {
		c.Fail("C04/unauth-state-change", "unauthenticated peer (%s/%s, appended %s) changed server files: %v", hsClass, credClass, appKind, d)
	}
	if ch, tr := srv.S.VerifTableSizes(); ch != chats0 || tr != transfers0 {
		c.Fail("C04/unauth-table-change", "chat/transfer tables changed: %d/%d -> %d/%d", chats0, transfers0, ch, tr)
	}
	if n := len(srv.S.ClientMgr.List()); n != 2 {
		c.Fail("C04/unauth-registry", "registry holds %d entries after the failed peer left, want the 2 observers", n)
	}
	for _, o := range []*refclient.Client{obsA, obsU} {
		if got := o.Drain(); len(got) > 0 {
			c.Fail("C04/observer-disturbed", "observer received %d transaction(s) because of a failed login (%s/%s): %v", len(got), hsClass, credClass, got[0])
		}
	}
}

// bcryptKey is the key material bcrypt actually uses: the first 72 bytes of the endless repetition of
// the (obfuscated, as transmitted) password followed by a NUL. Two passwords with the same key material
// are the same password as far as any bcrypt-based server is concerned (e.g. "" and a single 0xFF byte,
// whose transmitted form is one NUL).
func bcryptKey(clear []byte) []byte {
	k := append(rc.Obfuscate(clear), 0)
	out := make([]byte, 72)
	for i := range out {
		out[i] = k[i%len(k)]
	}
	return out
}

func head(b []byte, n int) []byte {
	if len(b) > n {
		return b[:n]
	}
	return b
}
