// Package c05: every privileged effect requires the governing privilege.
package c05

import (
	"fmt"
	"os"
	"sort"
	"strings"

	"verifharness/internal/core"
	"verifharness/internal/fixture"
	"verifharness/internal/refclient"
	rc "verifharness/internal/refcodec"
	"verifharness/internal/xfer"
)

type env struct {
	obsID, victimID uint16
	chatID          []byte
}

type scenario struct {
	name  string
	typ   int
	gov   []int // governing privilege bits (all required)
	build func(e env) []rc.Field
	// noReply: the request has no reply when granted (chat send, set client info, ...)
	noReply bool
	// special handling
	nameAdoption bool
	// semantic: absolute oracle evaluated on every execution (returns "" or a violation text)
	semantic func(bits []byte, o outcome, srv *fixture.Server) string
	// transfer: when the request hands out a reference number, perform the upload on the transfer connection
	transfer bool
}

func fn(s string) rc.Field           { return rc.FS(201, s) }
func fp(items ...string) rc.Field    { return rc.F(202, rc.PathS(items...)) }
func newp(items ...string) rc.Field  { return rc.F(212, rc.PathS(items...)) }
func login(s string) rc.Field        { return rc.F(105, rc.Obfuscate([]byte(s))) }
func npath(items ...string) rc.Field { return rc.F(325, rc.PathS(items...)) }

func dots(n int) []string {
	out := make([]string, n)
	for i := range out {
		out[i] = "."
	}
	return out
}

func sub(fs ...rc.Field) rc.Field { return rc.F(101, rc.SubFields(fs...)) }

var scenarios = []scenario{
	{name: "chat-send", typ: 105, gov: []int{10}, noReply: true, build: func(e env) []rc.Field { return []rc.Field{rc.FS(101, "hello")} }},
	{name: "private-message", typ: 108, gov: []int{40}, build: func(e env) []rc.Field {
		return []rc.Field{rc.F(103, rc.U16(int(e.obsID))), rc.F(113, rc.U16(1)), rc.FS(101, "psst")}
	}},
	{name: "comment-file", typ: 207, gov: []int{28}, build: func(e env) []rc.Field { return []rc.Field{fn("file.txt"), rc.FS(210, "a comment")} }},
	{name: "comment-folder", typ: 207, gov: []int{29}, build: func(e env) []rc.Field { return []rc.Field{fn("dir"), rc.FS(210, "a comment")} }},
	{name: "rename-file", typ: 207, gov: []int{3}, build: func(e env) []rc.Field { return []rc.Field{fn("file.txt"), rc.FS(211, "renamed.txt")} }},
	{name: "rename-folder", typ: 207, gov: []int{7}, build: func(e env) []rc.Field { return []rc.Field{fn("dir"), rc.FS(211, "renamed")} }},
	{name: "delete-file", typ: 204, gov: []int{0}, build: func(e env) []rc.Field { return []rc.Field{fn("file.txt")} }},
	{name: "delete-folder", typ: 204, gov: []int{6}, build: func(e env) []rc.Field { return []rc.Field{fn("dir")} }},
	{name: "delete-nested-file", typ: 204, gov: []int{0}, build: func(e env) []rc.Field { return []rc.Field{fn("inner.txt"), fp("dir")} }},
	{name: "move-file", typ: 208, gov: []int{4}, build: func(e env) []rc.Field { return []rc.Field{fn("file.txt"), newp("Docs")} }},
	{name: "move-folder", typ: 208, gov: []int{8}, build: func(e env) []rc.Field { return []rc.Field{fn("dir"), newp("Docs")} }},
	// aliases made earlier: the governing privilege is the one for the kind of item the alias stands for
	{name: "delete-file-alias", typ: 204, gov: []int{0}, build: func(e env) []rc.Field { return []rc.Field{fn("alias-file")} }},
	{name: "delete-folder-alias", typ: 204, gov: []int{6}, build: func(e env) []rc.Field { return []rc.Field{fn("alias-dir")} }},
	{name: "comment-file-alias", typ: 207, gov: []int{28}, build: func(e env) []rc.Field { return []rc.Field{fn("alias-file"), rc.FS(210, "a comment")} }},
	{name: "rename-file-alias", typ: 207, gov: []int{3}, build: func(e env) []rc.Field { return []rc.Field{fn("alias-file"), rc.FS(211, "renamed-alias")} }},
	{name: "move-file-alias", typ: 208, gov: []int{4}, build: func(e env) []rc.Field { return []rc.Field{fn("alias-file"), newp("Docs")} }},
	{name: "move-folder-alias", typ: 208, gov: []int{8}, build: func(e env) []rc.Field { return []rc.Field{fn("alias-dir"), newp("Docs")} }},
	{name: "new-folder", typ: 205, gov: []int{5}, build: func(e env) []rc.Field { return []rc.Field{fn("fresh")} }},
	{name: "new-folder-nested", typ: 205, gov: []int{5}, build: func(e env) []rc.Field { return []rc.Field{fn("fresh"), fp("dir")} }},
	{name: "set-user", typ: 353, gov: []int{17}, build: func(e env) []rc.Field {
		return []rc.Field{login("spare"), rc.FS(102, "Spare2"), rc.F(110, rc.Bitmap(2)), rc.F(106, []byte{0})}
	}},
	{name: "get-user", typ: 352, gov: []int{16}, build: func(e env) []rc.Field { return []rc.Field{rc.FS(105, "spare")} }},
	{name: "list-users", typ: 348, gov: []int{16}, build: func(e env) []rc.Field { return nil }},
	{name: "update-user-create", typ: 349, gov: []int{14}, build: func(e env) []rc.Field {
		return []rc.Field{sub(login("created"), rc.FS(102, "Created"), rc.F(106, rc.Obfuscate([]byte("pw"))), rc.F(110, make([]byte, 8)))}
	}},
	{name: "update-user-delete", typ: 349, gov: []int{15}, build: func(e env) []rc.Field {
		return []rc.Field{sub(rc.F(101, rc.Obfuscate([]byte("spare"))))}
	}},
	{name: "update-user-modify", typ: 349, gov: []int{17}, build: func(e env) []rc.Field {
		return []rc.Field{sub(login("spare"), rc.FS(102, "Spare3"), rc.F(106, []byte{0}), rc.F(110, rc.Bitmap(2)))}
	}},
	{name: "update-user-rename", typ: 349, gov: []int{17}, build: func(e env) []rc.Field {
		return []rc.Field{sub(rc.F(101, rc.Obfuscate([]byte("spare"))), login("spare-renamed"), rc.FS(102, "Spare4"), rc.F(106, []byte{0}), rc.F(110, rc.Bitmap(2)))}
	}},
	{name: "update-user-rename-form-same-login", typ: 349, gov: []int{17}, build: func(e env) []rc.Field {
		return []rc.Field{sub(rc.F(101, rc.Obfuscate([]byte("spare"))), login("spare"), rc.FS(102, "Spare5"), rc.F(106, rc.Obfuscate([]byte("newpw"))), rc.F(110, rc.Bitmap(2, 9)))}
	}},
	{name: "update-user-rename-form-own-account", typ: 349, gov: []int{17}, build: func(e env) []rc.Field {
		return []rc.Field{sub(rc.F(101, rc.Obfuscate([]byte("actor"))), login("actor"), rc.FS(102, "Actor Account"), rc.F(106, []byte{0}), rc.F(110, rc.Bitmap(2, 9)))}
	}},
	{name: "new-user", typ: 350, gov: []int{14}, build: func(e env) []rc.Field {
		return []rc.Field{login("created"), rc.FS(102, "Created"), rc.F(106, rc.Obfuscate([]byte("pw"))), rc.F(110, make([]byte, 8))}
	}},
	{name: "delete-user", typ: 351, gov: []int{15}, build: func(e env) []rc.Field { return []rc.Field{login("spare")} }},
	{name: "broadcast", typ: 355, gov: []int{32}, build: func(e env) []rc.Field { return []rc.Field{rc.FS(101, "attention")} }},
	{name: "client-info", typ: 303, gov: []int{24}, build: func(e env) []rc.Field { return []rc.Field{rc.F(103, rc.U16(int(e.obsID)))} }},
	{name: "post-board", typ: 103, gov: []int{21}, build: func(e env) []rc.Field { return []rc.Field{rc.FS(101, "a post")} }},
	{name: "get-board", typ: 101, gov: []int{20}, build: func(e env) []rc.Field { return nil }},
	{name: "news-cat-list", typ: 370, gov: []int{20}, build: func(e env) []rc.Field { return nil }},
	{name: "news-art-list", typ: 371, gov: []int{20}, build: func(e env) []rc.Field { return []rc.Field{npath("cat")} }},
	{name: "news-get-article", typ: 400, gov: []int{20}, build: func(e env) []rc.Field {
		return []rc.Field{npath("cat"), rc.F(326, rc.U32(1)), rc.FS(327, "text/plain")}
	}},
	{name: "disconnect", typ: 110, gov: []int{22}, build: func(e env) []rc.Field { return []rc.Field{rc.F(103, rc.U16(int(e.victimID)))} }},
	{name: "new-category", typ: 382, gov: []int{34}, build: func(e env) []rc.Field { return []rc.Field{rc.FS(322, "newcat")} }},
	{name: "new-category-nested", typ: 382, gov: []int{34}, build: func(e env) []rc.Field { return []rc.Field{rc.FS(322, "newcat"), npath("bun")} }},
	{name: "new-bundle", typ: 381, gov: []int{36}, build: func(e env) []rc.Field { return []rc.Field{fn("newbun")} }},
	{name: "delete-category", typ: 380, gov: []int{35}, build: func(e env) []rc.Field { return []rc.Field{npath("cat")} }},
	{name: "delete-nested-category", typ: 380, gov: []int{35}, build: func(e env) []rc.Field { return []rc.Field{npath("bun", "sub")} }},
	{name: "delete-bundle", typ: 380, gov: []int{37}, build: func(e env) []rc.Field { return []rc.Field{npath("bun")} }},
	{name: "delete-article", typ: 411, gov: []int{33}, build: func(e env) []rc.Field { return []rc.Field{npath("cat"), rc.F(326, rc.U32(1))} }},
	{name: "post-article", typ: 410, gov: []int{21}, build: func(e env) []rc.Field {
		return []rc.Field{npath("cat"), rc.F(326, rc.U32(0)), rc.FS(328, "title"), rc.FS(327, "text/plain"), rc.FS(333, "body")}
	}},
	{name: "download-file", typ: 202, gov: []int{2}, build: func(e env) []rc.Field { return []rc.Field{fn("file.txt")} }},
	{name: "download-folder", typ: 210, gov: []int{39}, build: func(e env) []rc.Field { return []rc.Field{fn("dir")} }},
	{name: "upload-file-uploads", typ: 203, gov: []int{1}, build: func(e env) []rc.Field { return []rc.Field{fn("up.bin"), fp("Uploads"), rc.F(108, rc.U32(100))} }},
	{name: "upload-file-dropbox", typ: 203, gov: []int{1}, build: func(e env) []rc.Field { return []rc.Field{fn("up.bin"), fp("Drop Box"), rc.F(108, rc.U32(100))} }},
	{name: "upload-file-elsewhere", typ: 203, gov: []int{1, 25}, build: func(e env) []rc.Field { return []rc.Field{fn("up.bin"), fp("Docs"), rc.F(108, rc.U32(100))} }},
	{name: "upload-file-root", typ: 203, gov: []int{1, 25}, build: func(e env) []rc.Field { return []rc.Field{fn("up.bin"), rc.F(108, rc.U32(100))} }},
	{name: "upload-folder-uploads", typ: 213, gov: []int{38}, build: func(e env) []rc.Field {
		return []rc.Field{fn("upf"), fp("Uploads"), rc.F(108, rc.U32(100)), rc.F(220, rc.U16(1))}
	}},
	{name: "upload-folder-elsewhere", typ: 213, gov: []int{38, 25}, build: func(e env) []rc.Field {
		return []rc.Field{fn("upf"), fp("Docs"), rc.F(108, rc.U32(100)), rc.F(220, rc.U16(1))}
	}},
	{name: "list-dropbox", typ: 200, gov: []int{30}, build: func(e env) []rc.Field { return []rc.Field{fp("Drop Box")} }},
	{name: "make-alias", typ: 209, gov: []int{31}, build: func(e env) []rc.Field { return []rc.Field{fn("file.txt"), newp("Docs")} }},
	{name: "invite-new-chat", typ: 112, gov: []int{11}, build: func(e env) []rc.Field { return []rc.Field{rc.F(103, rc.U16(int(e.obsID)))} }},
	{name: "invite-to-chat", typ: 113, gov: []int{11}, build: func(e env) []rc.Field {
		return []rc.Field{rc.F(103, rc.U16(int(e.obsID))), rc.F(114, e.chatID)}
	}},
	{name: "use-any-name", typ: 304, gov: []int{26}, noReply: true, nameAdoption: true, build: func(e env) []rc.Field {
		return []rc.Field{rc.FS(102, "Chosen Name"), rc.F(104, rc.U16(7))}
	}},
	// path encodings whose announced item count is smaller than the items present: whatever the parser makes of
	// them, protected data stays protected and uploads stay where the account may upload
	{name: "list-path-count-mismatch", typ: 200, build: func(e env) []rc.Field {
		p := rc.PathS("Docs", "Drop Box")
		p[1] = 1
		return []rc.Field{rc.F(202, p)}
	}, semantic: func(bits []byte, o outcome, srv *fixture.Server) string {
		if !rc.BitSet(bits, 30) && strings.Contains(o.replyHex, fmt.Sprintf("%x", "hidden-in-dropbox")) {
			return "the reply lists the content of a drop box to an account without view-drop-boxes"
		}
		return ""
	}},
	{name: "upload-path-count-mismatch", typ: 203, transfer: true, build: func(e env) []rc.Field {
		p := rc.PathS("Uploads", "..", "Docs")
		p[1] = 1
		return []rc.Field{fn("sneaked.bin"), rc.F(202, p), rc.F(108, rc.U32(100))}
	}, semantic: func(bits []byte, o outcome, srv *fixture.Server) string {
		if rc.BitSet(bits, 25) {
			return ""
		}
		for _, d := range o.diff {
			if strings.HasPrefix(d, "added root/") && !strings.HasPrefix(d, "added root/Uploads/") && !strings.HasPrefix(d, "added root/Drop Box/") {
				return "an account without upload-anywhere caused " + d
			}
		}
		return ""
	}},
	// paths of 256 and 257 items (the item count no longer fits one byte): the folder that is used and the folder the
	// drop-box / upload-folder rules look at must be the same one
	{name: "list-dropbox-by-256-item-path", typ: 200, build: func(e env) []rc.Field {
		return []rc.Field{rc.F(202, rc.PathS(append(dots(255), "Drop Box")...))}
	}, semantic: func(bits []byte, o outcome, srv *fixture.Server) string {
		if !rc.BitSet(bits, 30) && strings.Contains(o.replyHex, fmt.Sprintf("%x", "secret.txt")) {
			return "the reply lists the content of a drop box (named by a 256-item path) to an account without view-drop-boxes"
		}
		return ""
	}},
	{name: "list-dropbox-by-257-item-path", typ: 200, build: func(e env) []rc.Field {
		return []rc.Field{rc.F(202, rc.PathS(append(dots(256), "Drop Box")...))}
	}, semantic: func(bits []byte, o outcome, srv *fixture.Server) string {
		if !rc.BitSet(bits, 30) && strings.Contains(o.replyHex, fmt.Sprintf("%x", "secret.txt")) {
			return "the reply lists the content of a drop box (named by a 257-item path) to an account without view-drop-boxes"
		}
		return ""
	}},
	{name: "upload-by-257-item-path", typ: 203, transfer: true, build: func(e env) []rc.Field {
		return []rc.Field{fn("sneaked.bin"), rc.F(202, rc.PathS(append(append([]string{"Uploads", ".."}, dots(254)...), "Docs")...)), rc.F(108, rc.U32(100))}
	}, semantic: func(bits []byte, o outcome, srv *fixture.Server) string {
		if rc.BitSet(bits, 25) {
			return ""
		}
		for _, d := range o.diff {
			if strings.HasPrefix(d, "added root/") && !strings.HasPrefix(d, "added root/Uploads/") && !strings.HasPrefix(d, "added root/Drop Box/") {
				return "an account without upload-anywhere caused " + d
			}
		}
		return ""
	}},
	// an account creation whose login is spelled so that it names an existing account's file: whatever the reply, an
	// account that may not modify users must not have changed the existing account
	{name: "new-user-spelled-like-existing", typ: 350, build: func(e env) []rc.Field {
		return []rc.Field{rc.F(105, rc.Obfuscate([]byte("x/../spare"))), rc.FS(102, "Usurper"), rc.F(106, rc.Obfuscate([]byte("usurped"))), rc.F(110, rc.Bitmap(2))}
	}, semantic: func(bits []byte, o outcome, srv *fixture.Server) string {
		if rc.BitSet(bits, 17) {
			return ""
		}
		for _, d := range o.diff {
			if strings.Contains(d, "Users/spare.yaml") {
				return "an account without modify-user caused " + d
			}
		}
		return ""
	}},
	// a post addressed to a category that does not exist: whatever the reply, an account that may not create categories
	// must not have made one appear
	{name: "post-article-to-missing-category", typ: 410, build: func(e env) []rc.Field {
		return []rc.Field{npath("GhostCat"), rc.F(326, rc.U32(0)), rc.FS(328, "t"), rc.FS(327, "text/plain"), rc.FS(333, "b")}
	}, semantic: func(bits []byte, o outcome, srv *fixture.Server) string {
		if rc.BitSet(bits, 34) {
			return ""
		}
		for _, d := range o.diff {
			if strings.Contains(d, "ThreadedNews.yaml") {
				return "an account without create-category caused " + d
			}
		}
		return ""
	}},
	{name: "post-article-to-missing-category-in-bundle", typ: 410, build: func(e env) []rc.Field {
		return []rc.Field{npath("bun", "GhostCat"), rc.F(326, rc.U32(0)), rc.FS(328, "t"), rc.FS(327, "text/plain"), rc.FS(333, "b")}
	}, semantic: func(bits []byte, o outcome, srv *fixture.Server) string {
		if rc.BitSet(bits, 34) {
			return ""
		}
		for _, d := range o.diff {
			if strings.Contains(d, "ThreadedNews.yaml") {
				return "an account without create-category caused " + d
			}
		}
		return ""
	}},
	// an alias whose original is gone (another user deleted or moved it): it is neither a file nor a folder any more,
	// but whatever the reply, an account holding neither of the two delete (move) privileges must not have removed
	// (moved) it
	{name: "delete-dangling-alias", typ: 204, build: func(e env) []rc.Field { return []rc.Field{fn("alias-gone")} },
		semantic: func(bits []byte, o outcome, srv *fixture.Server) string {
			if rc.BitSet(bits, 0) || rc.BitSet(bits, 6) {
				return ""
			}
			if len(o.diff) > 0 {
				return fmt.Sprintf("an account with neither delete-file nor delete-folder caused %v", o.diff)
			}
			return ""
		}},
	{name: "move-dangling-alias", typ: 208, build: func(e env) []rc.Field { return []rc.Field{fn("alias-gone"), newp("Docs")} },
		semantic: func(bits []byte, o outcome, srv *fixture.Server) string {
			if rc.BitSet(bits, 4) || rc.BitSet(bits, 8) {
				return ""
			}
			if len(o.diff) > 0 {
				return fmt.Sprintf("an account with neither move-file nor move-folder caused %v", o.diff)
			}
			return ""
		}},
	// controls: no governing privilege, must be served whatever the bitmap
	{name: "ctl-keepalive", typ: 500, build: func(e env) []rc.Field { return nil }},
	{name: "ctl-userlist", typ: 300, build: func(e env) []rc.Field { return nil }},
	{name: "ctl-filelist", typ: 200, build: func(e env) []rc.Field { return nil }},
	{name: "ctl-fileinfo", typ: 206, build: func(e env) []rc.Field { return []rc.Field{fn("file.txt")} }},
	{name: "ctl-filelist-folder", typ: 200, build: func(e env) []rc.Field { return []rc.Field{fp("dir")} }},
}

const chunks = 8

func init() {
	n := len(scenarios) * chunks
	core.Register(&core.Simple{
		Id: "C05", Lvl: "exploration", Quick: n, Thorough: n * 12, PerBatch: 72, Width: 24, Timeout: 1200,
		RuleText: "one case = one request scenario (request type x target kind, 73 scenarios incl. controls, paths of 256/257 items, operations on existing aliases (also on one whose original is gone), and two hostile path encodings, a creation spelled like an existing account and posts to missing categories judged by absolute oracles) executed on identical fresh servers under a chunk of access bitmaps: all-ones (baseline), all-ones minus each governing bit, only the governing bits, the 64 single-bit bitmaps (exhaustive across the 8 chunks of a scenario) and seeded random bitmaps; the privileges are either held from the start, or set by an administrator between the actor's login and its agreed, or set on the live session (the privileges current when the request arrives are what counts); the oracle compares reply class, emissions to other clients and file/account/news/board snapshots with the baseline (granted) or demands an error reply and no change (denied). distinct = (scenario, bitmap class, granted/denied); non-trivial = every execution",
		Case:     runCase,
	})
}

type outcome struct {
	replied   bool
	errCode   uint32
	replyIDs  string
	emissions []string
	diff      []string
	tables    string
	actorName string
	raw       string
	replyHex  string
}

func (o outcome) sig() string {
	return fmt.Sprintf("replied=%v err=%v fields=%s emissions=%v diff=%v tables=%s", o.replied, o.errCode != 0, o.replyIDs, o.emissions, o.diff, o.tables)
}

func files(root string) {
	fixture.WriteFile(root+"/file.txt", "file-content")
	fixture.WriteFile(root+"/dir/inner.txt", "inner")
	os.MkdirAll(root+"/Uploads", 0755)
	os.MkdirAll(root+"/Docs", 0755)
	fixture.WriteFile(root+"/Drop Box/secret.txt", "secret")
	fixture.WriteFile(root+"/Docs/Drop Box/hidden-in-dropbox.txt", "secret")
	os.Symlink(root+"/file.txt", root+"/alias-file")
	os.Symlink(root+"/dir", root+"/alias-dir")
	os.Symlink(root+"/gone.txt", root+"/alias-gone") // its original was deleted later
}

const newsYAML = `Categories:
  cat:
    Type: [0, 3]
    Name: cat
    Articles:
      1:
        Title: first
        Poster: someone
        Date: [7, 232, 0, 0, 0, 0, 0, 1]
        PrevArt: [0, 0, 0, 0]
        NextArt: [0, 0, 0, 0]
        ParentArt: [0, 0, 0, 0]
        FirstChildArtArt: [0, 0, 0, 0]
        Data: article body
    SubCats: {}
  bun:
    Type: [0, 2]
    Name: bun
    Articles: {}
    SubCats:
      sub:
        Type: [0, 3]
        Name: sub
        Articles: {}
        SubCats: {}
`

// execute runs one request. mode "plain": the actor's account holds bits from the start. mode "revoke-before-agreed":
// the account starts with every privilege, the actor logs in (1.5 flow), an administrator then sets the account's
// privileges to bits, and only then the actor sends agreed. mode "revoke-live": the same change is made to the fully
// logged-in session. In all modes the privileges the account holds when the request arrives are bits.
func execute(sc scenario, bits []byte, mode string) (outcome, error) {
	var o outcome
	initial := bits
	if mode != "plain" {
		initial = rc.AllBits()
	}
	srv, err := fixture.New(fixture.Options{
		Accounts: []fixture.Account{
			{Login: "actor", Name: "Actor Account", Access: initial},
			{Login: "obs", Name: "Obs", Access: rc.AllBits()},
			{Login: "victim", Name: "Victim", Access: fixture.GuestBits()},
			{Login: "spare", Name: "Spare", Password: "sparepw", Access: rc.Bitmap(2, 9)},
			{Login: "guest", Name: "guest", Access: fixture.GuestBits()},
		},
		Agreement: "agreement", Board: "old board\r", NewsYAML: newsYAML, Files: files,
	})
	if err != nil {
		return o, err
	}
	defer srv.Close()
	obs, err := refclient.LoginAs(srv, "10.1.0.1:1", "obs", "", "Obs")
	if err != nil {
		return o, err
	}
	victim, err := refclient.LoginAs(srv, "10.1.0.2:1", "victim", "", "Victim")
	if err != nil {
		return o, err
	}
	setBits := func() error {
		rep, ok := obs.Call(353, rc.F(105, rc.Obfuscate([]byte("actor"))), rc.FS(102, "Actor Account"), rc.F(110, bits), rc.F(106, []byte{0}))
		if !ok || rep.Err != 0 {
			return fmt.Errorf("administrator's set-user failed: %v", rep)
		}
		return nil
	}
	var actor *refclient.Client
	switch mode {
	case "revoke-before-agreed":
		actor = refclient.Connect(srv, "10.1.0.3:1")
		if err := actor.Handshake(); err != nil {
			return o, err
		}
		if rep, ok := actor.Login(refclient.LoginOpts{Login: "actor", Version: 190}); !ok || rep.Err != 0 {
			return o, fmt.Errorf("actor login: %v", rep)
		}
		if err := setBits(); err != nil {
			return o, err
		}
		if _, ok := actor.Agreed("Actor", 1, 0, ""); !ok {
			return o, fmt.Errorf("no reply to agreed")
		}
	default:
		actor, err = refclient.LoginAs(srv, "10.1.0.3:1", "actor", "", "Actor")
		if err != nil {
			return o, err
		}
		if mode == "revoke-live" {
			if err := setBits(); err != nil {
				return o, err
			}
		}
	}
	// learn ids from the user list as a client would
	ul, ok := obs.Call(300)
	if !ok {
		return o, fmt.Errorf("no user list")
	}
	users, err := refclient.UserList(ul)
	if err != nil {
		return o, err
	}
	var e env
	var actorID uint16
	for _, u := range users {
		switch string(u.Name) {
		case "Obs":
			e.obsID = u.ID
		case "Victim":
			e.victimID = u.ID
		default:
			actorID = u.ID
		}
	}
	e.chatID = []byte{0, 0, 0, 0}
	if sc.name == "invite-to-chat" {
		// the observer opens a chat (with the victim) whose id the actor then uses
		r, ok := obs.Call(112, rc.F(103, rc.U16(int(e.victimID))))
		if !ok {
			return o, fmt.Errorf("no chat")
		}
		e.chatID, _ = r.Get(114)
	}
	if !srv.Quiesce(refclient.Watchdog) {
		return o, fmt.Errorf("no quiescence before the request")
	}
	obs.Drain()
	victim.Drain()
	actor.Drain()
	before := fixture.Snapshot(srv.Dir)
	ch0, tr0 := srv.S.VerifTableSizes()

	id := actor.Send(sc.typ, sc.build(e)...)
	if !actor.Conn.WaitIdle(refclient.Watchdog) || !srv.Quiesce(refclient.Watchdog) {
		return o, fmt.Errorf("no quiescence after the request")
	}
	for _, t := range actor.Drain() {
		if t.IsReply == 1 && t.ID == id {
			if o.replied {
				o.emissions = append(o.emissions, "duplicate-reply")
			}
			o.replied = true
			o.errCode = t.Err
			var ids []string
			for _, f := range t.Fields {
				ids = append(ids, fmt.Sprint(f.ID))
			}
			ids = dedupe(ids)
			o.replyIDs = strings.Join(ids, ",")
			o.raw = t.String()
			o.replyHex = fmt.Sprintf("%x", t.Encode())
			if ref, ok := t.Get(107); ok && sc.transfer && t.Err == 0 {
				body := xfer.UploadStream([]byte("n"), nil, []byte("payload"), nil)
				tr := xfer.Start(srv, "10.1.0.3:2", ref, len(body), [][]byte{body})
				xfer.Finish(tr)
			}
		} else {
			o.emissions = append(o.emissions, fmt.Sprintf("actor<-%d", t.Type))
		}
	}
	for _, t := range obs.Drain() {
		o.emissions = append(o.emissions, fmt.Sprintf("obs<-%d", t.Type))
		if t.Type == 301 {
			if uid, _ := t.Get(103); len(uid) == 2 && uint16(uid[0])<<8|uint16(uid[1]) == actorID {
				nm, _ := t.Get(102)
				o.actorName = string(nm)
			}
		}
	}
	for _, t := range victim.Drain() {
		o.emissions = append(o.emissions, fmt.Sprintf("victim<-%d", t.Type))
	}
	sort.Strings(o.emissions)
	for _, d := range fixture.Diff(before, fixture.Snapshot(srv.Dir)) {
		// keep the kind of change and the path, drop sizes/hashes (bcrypt salts and dates differ between runs)
		if i := strings.Index(d, " ("); i > 0 {
			d = d[:i]
		}
		o.diff = append(o.diff, d)
	}
	ch1, tr1 := srv.S.VerifTableSizes()
	o.tables = fmt.Sprintf("chats%+d transfers%+d clients=%d victimOpen=%v", ch1-ch0, tr1-tr0, len(srv.S.ClientMgr.List()), !victim.Conn.ServerClosed())
	return o, nil
}

func dedupe(s []string) []string {
	sort.Strings(s)
	var out []string
	for i, x := range s {
		if i == 0 || x != s[i-1] {
			out = append(out, x)
		}
	}
	return out
}

func without(bit int) []byte {
	b := rc.AllBits()
	b[bit/8] &^= 0x80 >> uint(bit%8)
	return b
}

func runCase(c *core.Case) {
	sc := scenarios[(c.Index/chunks)%len(scenarios)]
	chunk := c.Index % chunks
	round := c.Index / (chunks * len(scenarios))
	type variant struct {
		class string
		bits  []byte
	}
	var vs []variant
	if chunk == 0 && round == 0 {
		for _, g := range sc.gov {
			vs = append(vs, variant{fmt.Sprintf("all-minus-%d", g), without(g)})
		}
		vs = append(vs, variant{"only-governing", rc.Bitmap(sc.gov...)}, variant{"none", make([]byte, 8)})
	}
	if round == 0 {
		for b := chunk * 8; b < chunk*8+8; b++ {
			vs = append(vs, variant{"single-bit", rc.Bitmap(b)})
		}
	}
	nr := 2
	if round > 0 {
		nr = 10
	}
	for i := 0; i < nr; i++ {
		bits := c.R.Bytes(8)
		switch c.R.Intn(3) {
		case 0: // dense
			for j := range bits {
				bits[j] |= byte(c.R.Uint64())
			}
		case 1: // sparse
			for j := range bits {
				bits[j] &= byte(c.R.Uint64())
			}
		}
		vs = append(vs, variant{"random", bits})
	}

	base, err := execute(sc, rc.AllBits(), "plain")
	if err != nil {
		c.Unsure("baseline: %v", err)
		return
	}
	c.Count("executions", 1)
	if len(sc.gov) > 0 && !sc.noReply && (!base.replied || base.errCode != 0) {
		c.Fail("C05/"+sc.name+"/refused-with-all-privileges", "%s with all privileges: %s", sc.name, base.sig())
	}
	granted, denied := 0, 0
	for _, v := range vs {
		mode := core.Pick(c.R, []string{"plain", "plain", "revoke-before-agreed", "revoke-live"})
		o, err := execute(sc, v.bits, mode)
		if err != nil {
			c.Unsure("%s %x (%s): %v", sc.name, v.bits, mode, err)
			return
		}
		v.class += "/" + mode
		c.Count("executions", 1)
		c.Count("executions_"+mode, 1)
		if sc.semantic != nil {
			if msg := sc.semantic(v.bits, o, nil); msg != "" {
				c.Fail("C05/"+sc.name+"/protected-effect", "%s with bitmap %x (%s): %s; outcome %s", sc.name, v.bits, v.class, msg, o.sig())
			}
			if msg := sc.semantic(rc.AllBits(), base, nil); msg != "" {
				c.Fail("C05/"+sc.name+"/protected-effect", "%s: %s", sc.name, msg)
			}
			continue
		}
		has := true
		for _, g := range sc.gov {
			if !rc.BitSet(v.bits, g) {
				has = false
			}
		}
		if sc.nameAdoption {
			// no error either way; the name is adopted only with the privilege
			want := "Chosen Name"
			if !has {
				// not adopted: the user keeps the name it had (the account's name, or — when the privilege was
				// revoked from the live session — the name adopted at login)
				want = "Actor Account"
				if mode == "revoke-live" {
					want = "Actor"
				}
			}
			if o.replied && o.errCode != 0 {
				c.Fail("C05/"+sc.name+"/error", "set-client-info answered with an error for bitmap %x", v.bits)
			}
			if o.actorName != want {
				c.Fail("C05/"+sc.name+"/name", "bitmap %x (bit 26 %v): other users were told the name %q, want %q", v.bits, has, o.actorName, want)
			}
			if has {
				granted++
			} else {
				denied++
			}
			continue
		}
		if has {
			granted++
			// the read-chat privilege (9) legitimately decides whether the actor itself receives its chat line;
			// user flags in the baseline depend on bit 22 (admin flag). Compare modulo those documented effects.
			if norm(o, sc) != norm(base, sc) {
				c.Fail("C05/"+sc.name+"/refused-or-different-with-privilege", "%s with bitmap %x (holds governing %v, class %s) differs from the all-privileges run:\n got  %s\n want %s", sc.name, v.bits, sc.gov, v.class, o.sig(), base.sig())
			}
		} else {
			denied++
			if !o.replied || o.errCode == 0 {
				c.Fail("C05/"+sc.name+"/no-error-without-privilege", "%s with bitmap %x (lacks one of %v, class %s): expected an error reply, got %s %s", sc.name, v.bits, sc.gov, v.class, o.sig(), o.raw)
			} else if len(o.emissions) > 0 || len(o.diff) > 0 || o.tables != fmt.Sprintf("chats+0 transfers+0 clients=3 victimOpen=true") {
				c.Fail("C05/"+sc.name+"/effect-without-privilege", "%s with bitmap %x (lacks one of %v, class %s) was refused but had effects: %s", sc.name, v.bits, sc.gov, v.class, o.sig())
			}
		}
	}
	c.Count("granted", granted)
	c.Count("denied", denied)
	c.Describe(fmt.Sprintf("%s/chunk%d/g%v/d%v", sc.name, chunk, granted > 0, denied > 0),
		map[string]any{"scenario": sc.name, "request_type": sc.typ, "governing_bits": sc.gov, "bitmaps_run": len(vs) + 1, "granted": granted, "denied": denied, "baseline": base.sig()})
}

// norm renders an outcome for granted-vs-baseline comparison.
func norm(o outcome, sc scenario) string {
	var em []string
	for _, e := range o.emissions {
		if sc.name == "chat-send" && e == "actor<-106" {
			continue // receiving one's own public chat line is governed by read-chat (bit 9), not by send-chat
		}
		if sc.name == "disconnect" && strings.HasSuffix(e, "<-302") {
			continue // see below
		}
		em = append(em, e)
	}
	tables := o.tables
	if sc.name == "disconnect" {
		// a granted disconnect takes effect one second after the reply (the server's own delay): whether the
		// observation falls before or after that moment depends on the machine's load, not on the privilege. The
		// delayed effect (connection closed, user-left notices) is C17's subject; here only the reply is compared.
		tables = "(not compared)"
	}
	return fmt.Sprintf("replied=%v err=%v fields=%s emissions=%v diff=%v tables=%s", o.replied, o.errCode != 0, o.replyIDs, em, o.diff, tables)
}
