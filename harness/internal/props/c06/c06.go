// Package c06: no privilege amplification; protected users cannot be kicked.
package c06

import (
	"bytes"
	"encoding/json"
	"fmt"
	"os"
	"path/filepath"
	"strings"
	"sync"
	"time"

	"github.com/jhalter/mobius/verifshim"

	"verifharness/internal/core"
	"verifharness/internal/fixture"
	"verifharness/internal/refclient"
	rc "verifharness/internal/refcodec"
)

const nCreators = 64 + 64 + 32 // {14,i}, ones-minus-i, random
const nDiscon = 120

func init() {
	core.Register(&core.Simple{
		Id: "C06", Lvl: "exploration", Quick: nCreators + nDiscon, Thorough: (nCreators + nDiscon) * 10, PerBatch: 70, Width: 35, Timeout: 1200,
		RuleText: "creation cases: one creator bitmap per case ({create-user, bit i} for every i (exhaustive), all-ones minus bit i for every i (exhaustive), random) issues ~70 account creations over both creation requests with requested bitmaps = every single bit j (exhaustive: all 64x64 (i,j) pairs), random subsets/supersets and access fields of 0..10 bytes; afterwards the account must exist iff creator holds create-user and requested is a subset of creator, and its bitmap in memory, as listed and as reloaded from disk must be a subset of the creator's. creation cases also send two-entry update-user batches (edit an existing account, then create one asking for a privilege the creator lacks). disconnect cases: an admin sends disconnect with every ban option against targets holding cannot-be-disconnected plus random bits (held at login, or granted to the connected user's account by set-user just before, with two sessions of the account and notifications slowed by a hook delay); the target must stay connected and unbanned. distinct = (kind, creator class, request path, outcome)",
		Case:     runCase,
		Extra: func(tier string, seed int64) []core.Batch {
			n := 60
			if tier == "thorough" {
				n = 1500
			}
			a, _ := json.Marshal(map[string]int{"rounds": n})
			return []core.Batch{{Name: "racing-creators", Args: a, Timeout: 1200}}
		},
		RunExtra: runRacingCreators,
	})
}

// runRacingCreators: a creator with few privileges and one with all of them create the SAME login at the same moment,
// each asking for as much as it may grant. Whichever request is acknowledged, the account that then exists (in memory,
// as listed, on disk, after a restart) must carry exactly what that acknowledged request asked for - the refused
// request must leave no trace, otherwise the low creator has obtained an account above its own privileges.
func runRacingCreators(b core.Batch, em *core.Emitter) {
	var a struct {
		Rounds int `json:"rounds"`
	}
	json.Unmarshal(b.Args, &a)
	id := "C06/racing-creators"
	core.SafeCase(em, id, func() {
		em.Begin(id, nil)
		lowBits := rc.Bitmap(14, 16, 2, 9)
		srv, err := fixture.New(fixture.Options{Accounts: []fixture.Account{
			{Login: "low", Name: "Low", Access: lowBits},
			{Login: "high", Name: "High", Access: rc.AllBits()},
			{Login: "guest", Name: "guest", Access: fixture.GuestBits()},
		}})
		if err != nil {
			em.Emit(core.Result{Case: id, Verdict: core.Inconclusive, Msg: err.Error()})
			return
		}
		defer srv.Close()
		var lows, highs []*refclient.Client
		for i := 0; i < 2; i++ {
			l, e1 := refclient.LoginAs(srv, fmt.Sprintf("10.6.1.%d:1", i+1), "low", "", fmt.Sprintf("Low%d", i))
			h, e2 := refclient.LoginAs(srv, fmt.Sprintf("10.6.2.%d:1", i+1), "high", "", fmt.Sprintf("High%d", i))
			if e1 != nil || e2 != nil {
				em.Emit(core.Result{Case: id, Verdict: core.Inconclusive, Msg: "login"})
				return
			}
			lows, highs = append(lows, l), append(highs, h)
		}
		res := core.Result{Case: id, Class: "racing-creators", Verdict: core.Held, Obs: map[string]int{}, Sample: map[string]any{"rounds": a.Rounds, "low_creator_access": fmt.Sprintf("%x", lowBits)}}
		dir := filepath.Join(srv.ConfigDir, "Users")
		lowAsk, highAsk := rc.Bitmap(2, 9), rc.Bitmap(fixture.DefinedBits()...) // undefined bits are not stored in account files, so nobody holds them
		for round := 0; round < a.Rounds && res.Verdict == core.Held; round++ {
			login := fmt.Sprintf("raced%04d", round)
			type req struct {
				cl          *refclient.Client
				typ         int
				ask         []byte
				ok          bool
				lostInStore bool
			}
			reqs := []*req{{cl: lows[0], ask: lowAsk}, {cl: highs[0], ask: highAsk}, {cl: lows[1], ask: lowAsk}, {cl: highs[1], ask: highAsk}}
			start := make(chan struct{})
			var wg sync.WaitGroup
			for i, q := range reqs {
				q.typ = []int{350, 349}[(round+i)%2]
				wg.Add(1)
				go func(q *req) {
					defer wg.Done()
					<-start
					var rep rc.Tran
					var ok bool
					if q.typ == 350 {
						rep, ok = q.cl.CallDirect(350, rc.F(105, rc.Obfuscate([]byte(login))), rc.FS(102, "raced"), rc.F(106, rc.Obfuscate([]byte("pw"))), rc.F(110, q.ask))
					} else {
						sub := []rc.Field{rc.F(105, rc.Obfuscate([]byte(login))), rc.FS(102, "raced"), rc.F(106, rc.Obfuscate([]byte("pw"))), rc.F(110, q.ask)}
						rep, ok = q.cl.CallDirect(349, rc.F(101, rc.SubFields(sub...)))
					}
					q.ok = ok && rep.Err == 0
					if ok && rep.Err != 0 {
						// the two refusal texts tell where the request lost: at the handler's existence check, or inside
						// the store's Create after passing that check (the interleaving of interest)
						msg, _ := rep.Get(100)
						q.lostInStore = strings.HasPrefix(string(msg), "Cannot create account because")
					}
				}(q)
			}
			close(start)
			wg.Wait()
			res.Obs["racing_rounds"]++
			for _, q := range reqs {
				if q.lostInStore {
					res.Obs["requests_refused_inside_the_store"]++
				}
			}
			var acked [][]byte
			for _, q := range reqs {
				if q.ok {
					acked = append(acked, q.ask)
				}
			}
			// what exists now
			views := map[string][]byte{}
			if acc := srv.S.AccountManager.Get(login); acc != nil {
				views["memory"] = acc.Access[:]
			}
			if rep, ok := highs[0].Call(352, rc.F(105, []byte(login))); ok && rep.Err == 0 {
				if v, ok := rep.Get(110); ok {
					views["get-user reply"] = pad8(v)
				}
			}
			if m2, err := verifshim.NewYAMLAccountManager(dir); err == nil {
				if acc := m2.Get(login); acc != nil {
					views["after restart"] = acc.Access[:]
				}
			}
			for name, v := range views {
				okFor := false
				for _, ask := range acked {
					if bytes.Equal(definedOnly(v), definedOnly(ask)) {
						okFor = true
					}
				}
				if !okFor {
					res.Verdict, res.Key = core.Violated, "C06/racing-creators/access-not-from-acknowledged-request"
					res.Msg = fmt.Sprintf("round %d: creators with access %x and all privileges raced to create %q (%d request(s) acknowledged, asking for %x); the account's access %s is %x, which no acknowledged request asked for", round, lowBits, login, len(acked), acked, name, v)
				}
			}
			if len(acked) == 1 && bytes.Equal(acked[0], lowAsk) {
				res.Obs["low_creator_won"]++
			}
		}
		em.Emit(res)
		em.Emit(core.Result{Case: id + "/rounds", Class: "racing-creators-rounds", Verdict: core.Held})
	})
}

func definedOnly(b []byte) []byte {
	out := make([]byte, 8)
	for _, i := range fixture.DefinedBits() {
		if i/8 < len(b) && b[i/8]&(0x80>>uint(i%8)) != 0 {
			out[i/8] |= 0x80 >> uint(i%8)
		}
	}
	return out
}

func runCase(c *core.Case) {
	k := c.Index % (nCreators + nDiscon)
	if k < nCreators {
		createCase(c, k)
	} else {
		disconnectCase(c, k-nCreators)
	}
}

func subset(a, b []byte) bool { // a ⊆ b over 8 bytes
	for i := 0; i < 8; i++ {
		var x, y byte
		if i < len(a) {
			x = a[i]
		}
		if i < len(b) {
			y = b[i]
		}
		if x&^y != 0 {
			return false
		}
	}
	return true
}

func pad8(b []byte) []byte {
	o := make([]byte, 8)
	copy(o, b)
	return o
}

func createCase(c *core.Case, k int) {
	r := c.R
	var creator []byte
	class := ""
	switch {
	case k < 64:
		creator = rc.Bitmap(14, k)
		class = "create+single"
	case k < 128:
		creator = rc.AllBits()
		i := k - 64
		creator[i/8] &^= 0x80 >> uint(i%8)
		class = "ones-minus-one"
	default:
		creator = r.Bytes(8)
		if r.Bool() {
			rc.SetBit(creator, 14)
		}
		class = "random"
	}
	srv, err := fixture.New(fixture.Options{Accounts: []fixture.Account{
		{Login: "creator", Name: "Creator", Access: creator},
		{Login: "admin", Name: "admin", Access: rc.AllBits()},
		{Login: "guest", Name: "guest", Access: fixture.GuestBits()},
	}})
	if err != nil {
		c.Unsure("fixture: %v", err)
		return
	}
	defer srv.Close()
	cr, err := refclient.LoginAs(srv, "10.2.0.1:1", "creator", "", "Creator")
	if err != nil {
		c.Unsure("login: %v", err)
		return
	}
	adm, err := refclient.LoginAs(srv, "10.2.0.2:1", "admin", "", "Admin")
	if err != nil {
		c.Unsure("login: %v", err)
		return
	}
	// the creator bitmap as the server holds it (only defined privileges survive the account file)
	held := srv.S.AccountManager.Get("creator").Access
	canCreate := rc.BitSet(held[:], 14)

	type req struct {
		access []byte
		path   int // 0 = new-user (350), 1 = update-user create branch (349)
	}
	var reqs []req
	for j := 0; j < 64; j++ {
		reqs = append(reqs, req{rc.Bitmap(j), j % 2})
	}
	// the other path for a sample of single bits, subsets, supersets, odd lengths
	for i := 0; i < 6; i++ {
		reqs = append(reqs, req{rc.Bitmap(r.Intn(64)), r.Intn(2)})
	}
	sub := append([]byte{}, held[:]...)
	for i := range sub {
		sub[i] &= byte(r.Uint64())
	}
	reqs = append(reqs, req{sub, 0}, req{append([]byte{}, sub...), 1}, req{append([]byte{}, held[:]...), r.Intn(2)})
	sup := append([]byte{}, held[:]...)
	rc.SetBit(sup, r.Intn(64))
	reqs = append(reqs, req{sup, r.Intn(2)})
	for _, l := range []int{0, 1, 3, 7, 9, 10} {
		reqs = append(reqs, req{r.Bytes(l), r.Intn(2)})
	}
	allowed, refused := 0, 0
	for i, q := range reqs {
		login := fmt.Sprintf("acc%03d", i)
		var reply rc.Tran
		var ok bool
		fields := []rc.Field{rc.F(105, rc.Obfuscate([]byte(login))), rc.FS(102, "N"+login), rc.F(106, rc.Obfuscate([]byte("pw"))), rc.F(110, q.access)}
		if q.path == 0 {
			reply, ok = cr.Call(350, fields...)
		} else {
			reply, ok = cr.Call(349, rc.F(101, rc.SubFields(fields...)))
		}
		if !ok {
			c.Fail("C06/create/no-reply", "creation request %d (path %d, access %x) got no reply", i, q.path, q.access)
			return
		}
		want := canCreate && subset(q.access, held[:])
		acc := srv.S.AccountManager.Get(login)
		_, statErr := os.Stat(filepath.Join(srv.ConfigDir, "Users", login+".yaml"))
		exists := acc != nil
		if exists != (statErr == nil) {
			c.Fail("C06/create/memory-disk-disagree", "account %s: in memory %v, file present %v", login, exists, statErr == nil)
		}
		pathName := []string{"new-user", "update-user"}[q.path]
		if exists && !want {
			c.Fail("C06/"+pathName+"/amplification", "creator holding %x created account with requested access %x via %s (creator may create: %v); stored access %x", held, q.access, pathName, canCreate, acc.Access)
		}
		if !exists && want {
			c.Fail("C06/"+pathName+"/refused-subset", "creator holding %x was refused creating an account with subset access %x via %s: %v", held, q.access, pathName, reply)
		}
		if exists {
			allowed++
			if !subset(acc.Access[:], held[:]) {
				c.Fail("C06/"+pathName+"/amplification", "in-memory access %x of the new account is not a subset of the creator's %x (requested %x)", acc.Access, held, q.access)
			}
			if !bytes.Equal(acc.Access[:], pad8(q.access)) {
				c.Fail("C06/"+pathName+"/stored-access-differs", "requested access %x stored as %x", q.access, acc.Access)
			}
			if reply.Err != 0 {
				c.Fail("C06/"+pathName+"/error-but-created", "error reply although the account was created")
			}
		} else {
			refused++
			if reply.Err == 0 {
				c.Fail("C06/"+pathName+"/no-error-when-refused", "no account was created but the reply carries no error: %v", reply)
			}
		}
	}
	// batched update-user requests: an entry that edits an existing account (rename form, same login) followed by an
	// entry that creates a new login asking for a privilege the creator lacks
	if rc.BitSet(held[:], 17) && canCreate {
		for bi := 0; bi < 3; bi++ {
			var lacking []int
			for j := 0; j < 64; j++ {
				if !rc.BitSet(held[:], j) {
					lacking = append(lacking, j)
				}
			}
			if len(lacking) == 0 {
				break
			}
			want := rc.Bitmap(core.Pick(r, lacking))
			base := fmt.Sprintf("base%d", bi)
			if rep, ok := cr.Call(350, rc.F(105, rc.Obfuscate([]byte(base))), rc.FS(102, "Base"), rc.F(106, rc.Obfuscate([]byte("pw"))), rc.F(110, make([]byte, 8))); !ok || rep.Err != 0 {
				continue
			}
			newLogin := fmt.Sprintf("accbatch%d", bi)
			cr.Call(349,
				rc.F(101, rc.SubFields(rc.F(101, rc.Obfuscate([]byte(base))), rc.F(105, rc.Obfuscate([]byte(base))), rc.FS(102, "Base edited"), rc.F(106, []byte{0}), rc.F(110, make([]byte, 8)))),
				rc.F(101, rc.SubFields(rc.F(105, rc.Obfuscate([]byte(newLogin))), rc.FS(102, "Sneaky"), rc.F(106, rc.Obfuscate([]byte("pw"))), rc.F(110, want))))
			if acc := srv.S.AccountManager.Get(newLogin); acc != nil && !subset(acc.Access[:], held[:]) {
				c.Fail("C06/update-user-batch/amplification", "creator holding %x sent a two-entry update-user (edit %q, then create %q asking for %x): the new login exists with access %x", held, base, newLogin, want, acc.Access)
			}
			if srv.S.AccountManager.Get(base) == nil {
				c.Fail("C06/update-user-batch/edited-account-lost", "after a two-entry update-user the edited account %q no longer exists", base)
			}
			c.Count("batch_requests", 1)
		}
	}
	// as listed to an administrator
	lr, ok := adm.Call(348)
	if !ok || lr.Err != 0 {
		c.Unsure("list-users failed")
		return
	}
	for _, d := range lr.GetAll(101) {
		fs, err := rc.DecodeSubFields(d)
		if err != nil {
			c.Fail("C06/list/unparseable", "list-users record: %v", err)
			continue
		}
		var lg, ac []byte
		for _, f := range fs {
			if f.ID == 105 {
				lg = rc.Obfuscate(f.Data)
			}
			if f.ID == 110 {
				ac = f.Data
			}
		}
		if strings.HasPrefix(string(lg), "acc") && !subset(ac, held[:]) {
			c.Fail("C06/list/amplification", "account %s is listed with access %x, creator holds %x", lg, ac, held)
		}
	}
	// as reloaded from disk by a fresh manager
	m2, err := verifshim.NewYAMLAccountManager(filepath.Join(srv.ConfigDir, "Users"))
	if err != nil {
		c.Fail("C06/reload-failed", "fresh account manager cannot load the directory: %v", err)
	} else {
		for _, a := range m2.List() {
			if strings.HasPrefix(a.Login, "acc") && !subset(a.Access[:], held[:]) {
				c.Fail("C06/disk/amplification", "account %s reloaded from disk has access %x, creator holds %x", a.Login, a.Access, held)
			}
		}
	}
	c.Count("creations_allowed", allowed)
	c.Count("creations_refused", refused)
	c.Describe(fmt.Sprintf("create/%s/can=%v/allowed=%v", class, canCreate, allowed > 0),
		map[string]any{"creator_access": fmt.Sprintf("%x", held), "requests": len(reqs), "allowed": allowed, "refused": refused})
}

func disconnectCase(c *core.Case, k int) {
	r := c.R
	target := r.Bytes(8)
	rc.SetBit(target, 23)
	if k%4 == 0 {
		target = rc.Bitmap(23)
	}
	optClass := k % 6
	var opt []byte
	switch optClass {
	case 0:
		opt = nil
	case 1:
		opt = []byte{0, 0}
	case 2:
		opt = []byte{0, 1}
	case 3:
		opt = []byte{0, 2}
	case 4:
		opt = []byte{0, 3}
	case 5:
		opt = []byte{byte(r.Intn(256)), byte(1 + r.Intn(2))}
	}
	late := k%3 == 1 // the protection is granted to the already connected user by an administrator's set-user
	initial := target
	if late {
		initial = append([]byte{}, target...)
		initial[23/8] &^= 0x80 >> uint(23%8)
	}
	srv, err := fixture.New(fixture.Options{Accounts: []fixture.Account{
		{Login: "prot", Name: "Prot", Access: initial},
		{Login: "admin", Name: "admin", Access: rc.AllBits()},
		{Login: "guest", Name: "guest", Access: fixture.GuestBits()},
	}})
	if err != nil {
		c.Unsure("fixture: %v", err)
		return
	}
	defer srv.Close()
	ip := fmt.Sprintf("172.16.%d.%d", r.Intn(256), 1+r.Intn(254))
	if !late && k%3 == 2 {
		duringLogin(c, srv, ip, opt, optClass, target)
		return
	}
	if late && (k/3)%2 == 1 {
		grantDuringLogin(c, srv, ip, opt, optClass, target)
		return
	}
	tgt, err := refclient.LoginAs(srv, ip+":4000", "prot", "", "Protected")
	if err != nil {
		c.Unsure("login: %v", err)
		return
	}
	adm, err := refclient.LoginAs(srv, "10.3.0.2:1", "admin", "", "Admin")
	if err != nil {
		c.Unsure("login: %v", err)
		return
	}
	if late {
		// a second session of the same account, and slow delivery of notifications: the grant must be in force for
		// every session of the account by the time the administrator's request is acknowledged
		tgt0 := tgt
		tgt, err = refclient.LoginAs(srv, ip+":4001", "prot", "", "Protected")
		if err != nil {
			c.Unsure("login: %v", err)
			return
		}
		_ = tgt0
	}
	ul, _ := adm.Call(300)
	if late {
		// the disconnect request follows the acknowledged set-user immediately
		srv.OnEvent = func(name string, cid [2]byte, x uint32) {
			if name == "outbox.dequeued" && x == 301 {
				time.Sleep(2 * time.Millisecond)
			}
		}
		rep, ok := adm.CallDirect(353, rc.F(105, rc.Obfuscate([]byte("prot"))), rc.FS(102, "Prot"), rc.F(110, target), rc.F(106, []byte{0}))
		if !ok || rep.Err != 0 {
			c.Unsure("set-user failed: %v", rep)
			return
		}
	}
	users, _ := refclient.UserList(ul)
	var tid uint16
	for _, u := range users {
		if string(u.Name) == "Protected" || string(u.Name) == "Prot" {
			if u.ID > tid {
				tid = u.ID // the most recent session of the account
			}
		}
	}
	fields := []rc.Field{rc.F(103, rc.U16(int(tid)))}
	if opt != nil {
		fields = append(fields, rc.F(113, opt))
	}
	reply, ok := adm.CallDirect(110, fields...)
	c.Describe(fmt.Sprintf("disconnect-protected/opt%d/late=%v", optClass, late), map[string]any{"target_access": fmt.Sprintf("%x", target), "options": fmt.Sprintf("%x", opt), "reply": reply.String()})
	if !ok {
		c.Fail("C06/disconnect/no-reply", "disconnect of a protected user got no reply (options %x)", opt)
		return
	}
	if reply.Err == 0 {
		c.Fail("C06/disconnect/no-error", "disconnect (options %x) of a user holding cannot-be-disconnected (access %x) was not refused", opt, target)
	}
	// the code disconnects 1 s after the request; an absence observed after waiting can only miss, never false-alarm
	time.Sleep(1300 * time.Millisecond)
	srv.Quiesce(refclient.Watchdog)
	if tgt.Conn.ServerClosed() || tgt.Conn.HandlerDone() {
		c.Fail("C06/disconnect/protected-user-closed", "connection of a protected user (access %x) was closed by a disconnect request with options %x", target, opt)
	}
	if _, ok := tgt.Call(500); !ok {
		c.Fail("C06/disconnect/protected-user-dead", "protected user no longer served after a disconnect request with options %x", opt)
	}
	if banned, _ := srv.S.BanList.IsBanned(ip); banned {
		c.Fail("C06/disconnect/protected-user-banned", "address of a protected user was banned (options %x)", opt)
	}
	if b, err := os.ReadFile(filepath.Join(srv.ConfigDir, "Banlist.yaml")); err == nil && strings.Contains(string(b), ip) {
		c.Fail("C06/disconnect/protected-user-banned-on-disk", "Banlist.yaml contains the protected user's address: %s", b)
	}
	for _, t := range tgt.Drain() {
		if t.Type == 104 {
			c.Fail("C06/disconnect/protected-user-notified", "protected user received a ban/disconnect message: %v", t)
		}
	}
	c.Count("disconnect_attempts", 1)
}

// duringLogin: the disconnect request arrives while the protected user's login is still being completed - the
// connection has just been entered into the registry (a hook holds it there for 200 ms). From the moment the user can
// be addressed by an id, the protection of its account must be in force.
func duringLogin(c *core.Case, srv *fixture.Server, ip string, opt []byte, optClass int, target []byte) {
	adm, err := refclient.LoginAs(srv, "10.3.0.2:1", "admin", "", "Admin")
	if err != nil {
		c.Unsure("login: %v", err)
		return
	}
	srv.Quiesce(refclient.Watchdog)
	registered := make(chan [2]byte, 4)
	srv.OnEvent = func(name string, cid [2]byte, x uint32) {
		if name == "conn.registered" {
			registered <- cid
			time.Sleep(200 * time.Millisecond)
		}
	}
	var tgt *refclient.Client
	var lerr error
	done := make(chan struct{})
	go func() {
		defer close(done)
		tgt, lerr = refclient.LoginAs(srv, ip+":4000", "prot", "", "Protected")
	}()
	var cid [2]byte
	select {
	case cid = <-registered:
	case <-time.After(refclient.Watchdog):
		c.Unsure("the target's registration was not observed")
		return
	}
	fields := []rc.Field{rc.F(103, cid[:])}
	if opt != nil {
		fields = append(fields, rc.F(113, opt))
	}
	reply, ok := adm.CallDirect(110, fields...)
	<-done
	srv.OnEvent = nil
	c.Describe(fmt.Sprintf("disconnect-protected/opt%d/during-login", optClass), map[string]any{"target_access": fmt.Sprintf("%x", target), "options": fmt.Sprintf("%x", opt), "reply": reply.String()})
	c.Count("disconnect_attempts", 1)
	c.Count("disconnect_attempts_during_the_target_login", 1)
	if lerr != nil {
		c.Fail("C06/disconnect/during-login/login-failed", "the protected user's login, during which a disconnect request for its id arrived, failed: %v", lerr)
		return
	}
	if ok && reply.Err == 0 {
		c.Fail("C06/disconnect/no-error", "disconnect (options %x) of a user holding cannot-be-disconnected (access %x), sent while that user's login was being completed (id %x already registered), was not refused", opt, target, cid)
	}
	time.Sleep(1300 * time.Millisecond)
	srv.Quiesce(refclient.Watchdog)
	if tgt.Conn.ServerClosed() || tgt.Conn.HandlerDone() {
		c.Fail("C06/disconnect/closed", "a user holding cannot-be-disconnected was disconnected by a request that arrived while its login was being completed (options %x)", opt)
	}
	if b, _ := srv.S.BanList.IsBanned(ip); b {
		c.Fail("C06/disconnect/banned", "the address of a user holding cannot-be-disconnected was banned by a request that arrived while its login was being completed (options %x)", opt)
	}
}

// grantDuringLogin: the account is marked cannot-be-disconnected by an administrator's (acknowledged) set-user while a
// login to that account is under way - authenticated, its account looked up, but not yet in the registry (a hook holds
// it there until the set-user has been answered). The disconnect request arrives after the login has completed: the
// account has carried the mark since before the user could be addressed at all, so the request must be refused.
func grantDuringLogin(c *core.Case, srv *fixture.Server, ip string, opt []byte, optClass int, target []byte) {
	adm, err := refclient.LoginAs(srv, "10.3.0.2:1", "admin", "", "Admin")
	if err != nil {
		c.Unsure("login: %v", err)
		return
	}
	srv.Quiesce(refclient.Watchdog)
	// the login is held either right before it is entered into the registry, or right after (registered, its login
	// reply not yet queued): an edit acknowledged at either point must be in force for the session
	holdAt := core.Pick(c.R, []string{"conn.registering", "login.ok"})
	c.Count("login_held_at_"+holdAt, 1)
	held, release := make(chan struct{}, 4), make(chan struct{})
	srv.OnEvent = func(name string, cid [2]byte, x uint32) {
		if name == holdAt {
			held <- struct{}{}
			select {
			case <-release:
			case <-time.After(refclient.Watchdog):
			}
		}
	}
	var tgt *refclient.Client
	var lerr error
	done := make(chan struct{})
	go func() {
		defer close(done)
		tgt, lerr = refclient.LoginAs(srv, ip+":4000", "prot", "", "Protected")
	}()
	select {
	case <-held:
	case <-time.After(refclient.Watchdog):
		close(release)
		c.Unsure("the target's login was not observed at the hook")
		return
	}
	rep, ok := adm.CallDirect(353, rc.F(105, rc.Obfuscate([]byte("prot"))), rc.FS(102, "Prot"), rc.F(110, target), rc.F(106, []byte{0}))
	close(release)
	<-done
	srv.OnEvent = nil
	if !ok || rep.Err != 0 {
		c.Unsure("set-user failed: %v", rep)
		return
	}
	if lerr != nil {
		c.Fail("C06/disconnect/during-login/login-failed", "the login during which the account was edited failed: %v", lerr)
		return
	}
	srv.Quiesce(refclient.Watchdog)
	ul, _ := adm.Call(300)
	users, _ := refclient.UserList(ul)
	var tid uint16
	for _, u := range users {
		if string(u.Name) == "Protected" || string(u.Name) == "Prot" {
			tid = u.ID
		}
	}
	if tid == 0 {
		c.Unsure("target not listed")
		return
	}
	fields := []rc.Field{rc.F(103, rc.U16(int(tid)))}
	if opt != nil {
		fields = append(fields, rc.F(113, opt))
	}
	reply, ok := adm.CallDirect(110, fields...)
	c.Describe(fmt.Sprintf("disconnect-protected/opt%d/granted-during-login", optClass), map[string]any{"target_access": fmt.Sprintf("%x", target), "options": fmt.Sprintf("%x", opt), "reply": reply.String()})
	c.Count("disconnect_attempts", 1)
	c.Count("protection_granted_while_the_target_was_logging_in", 1)
	if ok && reply.Err == 0 {
		c.Fail("C06/disconnect/no-error", "disconnect (options %x) of a user whose account (access %x) was marked cannot-be-disconnected by an acknowledged set-user while that user was logging in (before it was registered) was not refused", opt, target)
	}
	time.Sleep(1300 * time.Millisecond)
	srv.Quiesce(refclient.Watchdog)
	if tgt.Conn.ServerClosed() || tgt.Conn.HandlerDone() {
		c.Fail("C06/disconnect/closed", "a user whose account was marked cannot-be-disconnected while it was logging in was disconnected (options %x)", opt)
	}
	if b, _ := srv.S.BanList.IsBanned(ip); b {
		c.Fail("C06/disconnect/banned", "the address of a user whose account was marked cannot-be-disconnected while it was logging in was banned (options %x)", opt)
	}
}
