// Package c07: all filesystem effects stay inside the file root / accounts directory.
package c07

import (
	"github.com/jhalter/mobius/verifshim"

	"bufio"
	"bytes"
	"encoding/json"
	"fmt"
	"os"
	"os/exec"
	"path/filepath"
	"regexp"
	"strings"
	"syscall"
	"time"

	"verifharness/internal/core"
	"verifharness/internal/fixture"
	"verifharness/internal/refclient"
	rc "verifharness/internal/refcodec"
	"verifharness/internal/xfer"
)

const depth = 4

var kinds = []string{"create-then-rename", "create-then-modify", "create-then-delete", "list", "info", "set-comment", "rename", "delete", "move", "move-dest", "new-folder", "alias", "alias-dest", "download", "download-folder",
	"upload", "upload-folder-target", "upload-folder-items", "new-user", "update-create", "update-rename", "update-delete", "set-user", "delete-user", "alias-then-move", "upload-folder-onto-root", "upload-folder-target-removed"}

// auditMark, when set (path-audit child), is called right before the hostile request is sent and right after the
// server is quiescent again, so that a system-call tracer can attribute file accesses to the request.
var auditMark func(tag string, sb *sandbox, accountZone bool)

var simple *core.Simple

func init() {
	simple = &core.Simple{
		Id: "C07", Lvl: "exploration", Quick: 2100, Thorough: 80000, PerBatch: 350, Width: 175, Timeout: 2400,
		RuleText: "each case builds a sandbox S/l1/l2/l3/l4/root with uniquely named canary files and directories at every level (including .info_root, .rsrc_root and root.incomplete next to the root, and canaries next to the accounts directory), then — as a client of the server-wide root or, in a third of the cases, of an account with its own file root next to it — sends one file-touching or account request (27 kinds incl. a folder upload whose target is deleted / renamed / moved away by a request between two of its items, an alias that is made in a sub-folder and then moved up, a folder upload aimed at the root itself while an entry called '.incomplete' lies in it, two-step account sequences on a hostile existing login, the actual transfer for downloads/uploads and folder-upload item headers on the transfer connection) whose name / path items / new name / destination / item header / login carries a hostile component ('..', '.', '/', empty, absolute, a/../../b, NUL, 255-byte and longer, high bytes, more '..' than the sandbox is deep, paths of 257 and 300 items that climb on balance, count/length prefixes that disagree with the data, names aiming at a canary); oracle: the recursive snapshot (names, types, sizes, hashes, link targets) of everything outside the root (outside Users/ for account requests) is unchanged, no link inside the root points outside, and no canary token appears in any reply or transfer byte. distinct = (request kind, hostile class, placement); non-trivial = every case",
		Case:     runCase,
		Extra: func(tier string, seed int64) []core.Batch {
			n := 170
			if tier == "thorough" {
				n = 6000
			}
			a, _ := json.Marshal(map[string]int{"cases": n})
			return []core.Batch{{Name: "path-audit", Args: a, Timeout: 2400}}
		},
		RunExtra: runAudit,
	}
	core.Register(simple)
}

type hostile struct {
	class string
	b     []byte
}

func hostiles(r *core.Rand, canaryName, cfgCanary string) []hostile {
	up := strings.Repeat("../", 1+r.Intn(depth+3))
	return []hostile{
		{"dotdot", []byte("..")},
		{"dot", []byte(".")},
		{"slash", []byte("/")},
		{"empty", []byte{}},
		{"absolute", []byte("/etc/passwd")},
		{"absolute-tmp", []byte("/tmp/c07-escape-" + fmt.Sprint(r.Intn(1e6)))},
		{"up-path", []byte(up + "escaped-" + fmt.Sprint(r.Intn(1000)))},
		{"up-canary", []byte(up + canaryName)},
		{"one-up-canary", []byte("../" + canaryName)},
		{"a-up-up-b", []byte("a/../../../b")},
		{"nul", []byte("x\x00/../../y")},
		{"nul-only", []byte{0}},
		{"len255", bytes.Repeat([]byte("A"), 255)},
		{"len300", append(bytes.Repeat([]byte("../"), 80), []byte("long-escape")...)},
		{"highbytes", []byte{'.', '.', '/', 0xCA, 0xD0, 0x8E, '/', '.', '.', '/', '.', '.', '/', 'h'}},
		{"dotdot-slash-variants", []byte("..//..//../" + canaryName)},
		{"dot-dotdot", []byte("./../../" + canaryName)},
		{"backslash", []byte("..\\..\\" + canaryName)},
		{"info-side", []byte(".info_root")},
		{"trailing-up", []byte("dir/../..")},
		{"dot-nul-dot", []byte(".\x00.")},
		{"dot-nul-dot-path", []byte(".\x00./.\x00./.\x00./pwned-" + fmt.Sprint(r.Intn(1000)))},
		{"dotdot-nul", []byte("..\x00")},
		{"nul-dotdot", []byte("\x00../\x00../x")},
		{"dot-space-dot", []byte(". ./. ./x")},
		{"dotdot-space", []byte(".. /.. /x")},
		{"up-config-canary", []byte("../" + cfgCanary)},
		{"up-config-escaped", []byte("../escaped")},
		{"benign", []byte("file.txt")},
	}
}

// hostilePaths returns raw bytes for a path field (202 / 212 / 325-style encoding).
func hostilePaths(r *core.Rand, canaryName string) []hostile {
	items := func(ss ...string) []byte { return rc.PathS(ss...) }
	many := make([]string, depth+2+r.Intn(3))
	for i := range many {
		many[i] = ".."
	}
	// more than 255 items (the count no longer fits one byte) that climb on balance: dir/.. pairs, then '..'
	var deep257, deep300 []string
	for i := 0; i < 128; i++ {
		deep257 = append(deep257, "dir", "..")
	}
	deep257 = append(deep257, "..")
	for i := 0; i < 149; i++ {
		deep300 = append(deep300, "dir", "..")
	}
	deep300 = append(deep300, "..", "..")
	return []hostile{
		{"path-257-items-climbing", items(deep257...)},
		{"path-300-items-climbing", items(deep300...)},
		{"path-absent", nil},
		{"path-dotdot", items("..")},
		{"path-dotdot-x2", items("..", "..")},
		{"path-many-dotdot", items(many...)},
		{"path-many-dotdot-canary", items(append(many[:2], canaryName)...)},
		{"path-up-in-item", items("dir/../../..")},
		{"path-a-up-up", items("dir", "..", "..", "..")},
		{"path-absolute-item", items("/etc")},
		{"path-empty-item", items("")},
		{"path-dot", items(".")},
		{"path-nul", items("..\x00", "..")},
		{"path-255", items(strings.Repeat("B", 255))},
		{"path-count-too-big", append(rc.U16(9), items("..", "..")[2:]...)},
		{"path-count-zero", append(rc.U16(0), items("..", "..")[2:]...)},
		{"path-len-overrun", []byte{0, 1, 0, 0, 200, '.', '.'}},
		{"path-truncated", []byte{0, 2, 0, 0, 2, '.', '.', 0}},
		{"path-benign", items("dir")},
	}
}

type sandbox struct {
	srv       *fixture.Server
	tokens    []string
	canary    string // name of the canary file one level above the root
	cfgCanary string // base name (without .yaml) of the canary file next to the accounts directory
	zoneRoot  string // the client's file root (its account's own root, or the server-wide one)
}

func build(r *core.Rand) (*sandbox, error) {
	sb := &sandbox{}
	srv, err := fixture.New(fixture.Options{RootDepth: depth, PreserveForks: r.Bool(), Files: func(root string) {
		fixture.WriteFile(root+"/file.txt", "inside-file")
		fixture.WriteFile(root+"/dir/inner.txt", "inside-inner")
		fixture.WriteFile(root+"/dir/sub/deep.txt", "inside-deep")
		os.MkdirAll(root+"/Uploads", 0755)
		os.MkdirAll(root+"/Docs", 0755)
	}})
	if err != nil {
		return nil, err
	}
	sb.srv = srv
	tok := func() string {
		t := fmt.Sprintf("ZQ%012x", r.Uint64()&0xffffffffffff)
		sb.tokens = append(sb.tokens, t)
		return t
	}
	// canaries at every level between the sandbox top and the root
	dir := srv.Dir
	for i := 0; i <= depth; i++ {
		name := tok() + ".txt"
		fixture.WriteFile(filepath.Join(dir, name), tok()+"-content")
		os.MkdirAll(filepath.Join(dir, tok()+"-dir"), 0755)
		fixture.WriteFile(filepath.Join(dir, "escaped-target", "x.txt"), tok())
		if i == depth {
			sb.canary = name
			// the names the fork logic derives for the root itself
			fixture.WriteFile(filepath.Join(dir, ".info_root"), tok())
			fixture.WriteFile(filepath.Join(dir, ".rsrc_root"), tok())
			fixture.WriteFile(filepath.Join(dir, "root.incomplete"), tok())
			fixture.WriteFile(filepath.Join(dir, "file.txt"), tok()) // same name as a file inside the root
		} else {
			dir = filepath.Join(dir, fmt.Sprintf("l%d", i+1))
		}
	}
	// canaries next to the accounts directory
	sb.cfgCanary = tok()
	fixture.WriteFile(filepath.Join(srv.ConfigDir, sb.cfgCanary+".yaml"), "Login: canary\n"+tok())
	fixture.WriteFile(filepath.Join(srv.ConfigDir, "escaped.yaml"), tok())
	return sb, nil
}

// leak returns a canary token found in b, ignoring tokens the client itself put into its request
// (error replies echo the requested name).
func (sb *sandbox) leak(b []byte, sent []byte) string {
	for _, t := range sb.tokens {
		if bytes.Contains(b, []byte(t)) && !bytes.Contains(sent, []byte(t)) {
			return t
		}
	}
	return ""
}

func runCase(c *core.Case) {
	r := c.R
	kind := kinds[c.Index%len(kinds)]
	sb, err := build(r)
	if err != nil {
		c.Unsure("fixture: %v", err)
		return
	}
	srv := sb.srv
	defer srv.Close()
	// in a third of the cases the client's account has its OWN file root (a sibling of the server-wide root):
	// then that directory is "the client's file root" and the server-wide root is outside of it
	zoneRoot := srv.FileRoot
	account := "admin"
	// the configured root string is not always in clean form: operators write "/srv/files/" as often as "/srv/files"
	rootSuffix := []string{"", "/", "", "/.", "", "//"}[(c.Index/7)%6]
	srv.S.Config.FileRoot = srv.FileRoot + rootSuffix
	if c.Index%3 == 1 {
		own := filepath.Join(filepath.Dir(srv.FileRoot), "acctroot")
		fixture.WriteFile(own+"/file.txt", "inside-file")
		fixture.WriteFile(own+"/dir/inner.txt", "inside-inner")
		fixture.WriteFile(own+"/dir/sub/deep.txt", "inside-deep")
		os.MkdirAll(own+"/Uploads", 0755)
		os.MkdirAll(own+"/Docs", 0755)
		if acc := srv.S.AccountManager.Get("admin"); acc != nil {
			scoped := *acc
			scoped.Login, scoped.Name, scoped.FileRoot = "scoped", "Scoped", own+rootSuffix
			if err := srv.S.AccountManager.Create(scoped); err == nil {
				account, zoneRoot = "scoped", own
				// the server-wide root is outside this client's file root: a canary in it must never be disclosed
				t := fmt.Sprintf("ZQ%012x", r.Uint64()&0xffffffffffff)
				sb.tokens = append(sb.tokens, t)
				fixture.WriteFile(filepath.Join(srv.FileRoot, t+".txt"), t+"-content")
				if (c.Index/3)%4 == 2 {
					// the account's own folder is not there (renamed away by somebody, or never created): its requests
					// must fail, not quietly act on some other folder
					os.Rename(own, own+"-moved")
					c.Count("account_root_missing", 1)
				}
			}
		}
	}
	cl, err := refclient.LoginAs(srv, "10.7.0.1:1", account, "", "Intruder")
	if err != nil {
		c.Unsure("login: %v", err)
		return
	}
	sb.zoneRoot = zoneRoot
	hs := hostiles(r, sb.canary, sb.cfgCanary)
	hp := hostilePaths(r, sb.canary)
	// every (request kind, hostile class) pair is enumerated across the cases of a run; the rest is drawn from the seed
	round := c.Index / len(kinds)
	h := hs[round%len(hs)]
	p := hp[round%len(hp)]
	placement := "name"
	nameField := func() []rc.Field {
		if h.class == "benign" && r.Bool() {
			return nil // absent name
		}
		return []rc.Field{rc.F(201, h.b)}
	}
	pathField := func(id int) []rc.Field {
		if p.b == nil {
			return nil
		}
		return []rc.Field{rc.F(id, p.b)}
	}
	// choose whether the hostile part sits in the name or in the path
	if r.Bool() {
		placement = "path"
		h = hostile{"benign", []byte("file.txt")}
		if kind == "new-folder" || kind == "upload" || kind == "upload-folder-target" {
			h.b = []byte("made-" + fmt.Sprint(r.Intn(1000)))
		}
	} else {
		p = hostile{"path-absent", nil}
		if r.Chance(1, 4) {
			p = hostile{"path-benign", rc.PathS("dir")}
		}
	}
	accountZone := false
	cwdBefore := map[string]bool{}
	for _, e := range core.CwdCanary() {
		cwdBefore[e] = true
	}
	before := fixture.Snapshot(srv.Dir)
	var streams [][]byte
	call := func(typ int, fs ...rc.Field) (rc.Tran, bool) {
		rep, ok := cl.Call(typ, fs...)
		return rep, ok
	}
	desc := fmt.Sprintf("%s name=%q path=%x", kind, h.b, p.b)
	if kind == "upload-folder-onto-root" {
		// the earlier request that left the entry (done before the audited window opens: the harness touches files here)
		if r.Bool() {
			call(205, rc.FS(201, ".incomplete"))
		} else {
			os.WriteFile(filepath.Join(zoneRoot, ".incomplete"), []byte("partial"), 0644)
		}
		before = fixture.Snapshot(srv.Dir)
	}
	if auditMark != nil {
		auditMark("B", sb, strings.HasPrefix(kind, "create-then") || strings.Contains(kind, "user") || strings.HasPrefix(kind, "update-"))
	}
	switch kind {
	case "list":
		placement = "path"
		p = core.Pick(r, hp)
		desc = fmt.Sprintf("%s path=%x", kind, p.b)
		call(200, pathField(202)...)
	case "info":
		call(206, append(nameField(), pathField(202)...)...)
	case "set-comment":
		call(207, append(append(nameField(), pathField(202)...), rc.FS(210, "hostile comment"))...)
	case "rename":
		// the hostile part is the NEW name
		placement = "new-name"
		nn := h
		src := core.Pick(r, []string{"file.txt", "dir"})
		desc = fmt.Sprintf("rename %s -> %q", src, nn.b)
		call(207, rc.FS(201, src), rc.F(211, nn.b))
	case "delete":
		call(204, append(nameField(), pathField(202)...)...)
	case "move":
		call(208, append(append(nameField(), pathField(202)...), rc.F(212, rc.PathS("Docs")))...)
	case "move-dest":
		placement = "destination"
		p = core.Pick(r, hp)
		desc = fmt.Sprintf("move file.txt -> dest %x", p.b)
		call(208, append([]rc.Field{rc.FS(201, "file.txt")}, pathField(212)...)...)
	case "new-folder":
		call(205, append(nameField(), pathField(202)...)...)
	case "alias":
		call(209, append(append(nameField(), pathField(202)...), rc.F(212, rc.PathS("Docs")))...)
	case "alias-dest":
		placement = "destination"
		p = core.Pick(r, hp)
		desc = fmt.Sprintf("alias file.txt -> dest %x", p.b)
		call(209, append([]rc.Field{rc.FS(201, "file.txt")}, pathField(212)...)...)
	case "download":
		rep, ok := call(202, append(nameField(), pathField(202)...)...)
		if ref, has := rep.Get(107); ok && rep.Err == 0 && has {
			run := xfer.Download(srv, "10.7.0.1:2", ref)
			streams = append(streams, run.Out)
		}
	case "download-folder":
		rep, ok := call(210, append(nameField(), pathField(202)...)...)
		if ref, has := rep.Get(107); ok && rep.Err == 0 && has {
			items, t, _ := xfer.FolderDownload(srv, "10.7.0.1:2", ref, 40, func(int, *xfer.DlItem) (int, int) { return 1, 0 })
			_ = items
			t.Conn.CloseWrite()
			t.WaitDone(xfer.TransferWatchdog)
			streams = append(streams, t.Conn.Out())
		}
	case "upload":
		rep, ok := call(203, append(append(nameField(), pathField(202)...), rc.F(108, rc.U32(50)))...)
		if ref, has := rep.Get(107); ok && rep.Err == 0 && has {
			body := xfer.UploadStream([]byte("n"), nil, []byte("UPLOADED-BY-INTRUDER"), []byte("rsrc"))
			t := xfer.Start(srv, "10.7.0.1:2", ref, len(body), [][]byte{body})
			xfer.Finish(t)
		}
	case "upload-folder-target":
		rep, ok := call(213, append(append(nameField(), pathField(202)...), rc.F(108, rc.U32(50)), rc.F(220, rc.U16(1)))...)
		if ref, has := rep.Get(107); ok && rep.Err == 0 && has {
			_, t, _ := xfer.FolderUpload(srv, "10.7.0.1:2", ref, []xfer.UpItem{{Path: [][]byte{[]byte("item.txt")}, Data: []byte("FOLDER-ITEM")}})
			t.Conn.CloseWrite()
			t.WaitDone(xfer.TransferWatchdog)
		}
	case "upload-folder-items":
		placement = "item-header"
		rep, ok := call(213, rc.FS(201, "Incoming"), rc.F(202, rc.PathS("Uploads")), rc.F(108, rc.U32(50)), rc.F(220, rc.U16(2)))
		if ref, has := rep.Get(107); ok && rep.Err == 0 && has {
			hh := h
			var items []xfer.UpItem
			switch (round / len(hs)) % 5 {
			case 0: // hostile bytes as the single path item of a file
				items = []xfer.UpItem{{Path: [][]byte{clip(hh.b)}, Data: []byte("FOLDER-ITEM-ESCAPE")}}
			case 4: // the hostile bytes as every path item, then a name
				items = []xfer.UpItem{{Path: [][]byte{clip(hh.b), clip(hh.b), clip(hh.b), []byte("escaped-by-items.txt")}, Data: []byte("FOLDER-ITEM-ESCAPE")}}
			case 1: // several '..' items then a name
				items = []xfer.UpItem{{Path: [][]byte{[]byte(".."), []byte(".."), []byte(".."), []byte("escaped-by-items.txt")}, Data: []byte("FOLDER-ITEM-ESCAPE")}}
				h.class = "items-dotdot"
			case 2: // a folder item that escapes, then a file inside it
				items = []xfer.UpItem{{IsFolder: true, Path: [][]byte{[]byte(".."), []byte(".."), []byte("escaped-dir")}},
					{Path: [][]byte{[]byte(".."), []byte(".."), []byte("escaped-dir"), []byte("f.txt")}, Data: []byte("FOLDER-ITEM-ESCAPE")}}
				h.class = "items-dotdot-folder"
			case 3: // header whose size/count disagree with the data
				raw := rc.FolderItem(false, []byte(".."), []byte("x"))
				raw[5] = 9 // path item count larger than the items present
				items = []xfer.UpItem{{Path: [][]byte{[]byte("x")}, RawHeader: raw, Data: []byte("X")}}
				h.class = "items-count-mismatch"
			}
			desc = fmt.Sprintf("folder upload item headers (%s) %q", h.class, hh.b)
			_, t, _ := xfer.FolderUpload(srv, "10.7.0.1:2", ref, items)
			t.Conn.CloseWrite()
			t.WaitDone(xfer.TransferWatchdog)
		}
	case "create-then-rename", "create-then-modify", "create-then-delete":
		// an account whose LOGIN is hostile is created first (that step is itself judged by the snapshot), then the
		// existing hostile login is renamed / modified / deleted
		accountZone, placement = true, "existing-login"
		call(350, rc.F(105, rc.Obfuscate(h.b)), rc.FS(102, "X"), rc.F(106, rc.Obfuscate([]byte("p"))), rc.F(110, make([]byte, 8)))
		switch kind {
		case "create-then-rename":
			call(349, rc.F(101, rc.SubFields(rc.F(101, rc.Obfuscate(h.b)), rc.F(105, rc.Obfuscate([]byte("plain-new-login"))), rc.FS(102, "Renamed"), rc.F(106, []byte{0}), rc.F(110, make([]byte, 8)))))
		case "create-then-modify":
			call(353, rc.F(105, rc.Obfuscate(h.b)), rc.FS(102, "Modified"), rc.F(110, make([]byte, 8)), rc.F(106, []byte{0}))
		case "create-then-delete":
			call(351, rc.F(105, rc.Obfuscate(h.b)))
		}
	case "alias-then-move":
		// no hostile bytes at all: a folder gets a name that also exists one level above the file root, an alias of it is
		// made in a deeper folder and then moved up. Wherever the alias ends up, it must keep standing for the folder
		// inside the root (a link stored relative to its folder would now point above the root).
		placement, desc = "moved-alias", "alias-then-move of dir/escaped-target via dir/sub to the root"
		call(205, rc.FS(201, "escaped-target"), rc.F(202, rc.PathS("dir")))
		call(209, rc.FS(201, "escaped-target"), rc.F(202, rc.PathS("dir")), rc.F(212, rc.PathS("dir", "sub")))
		call(208, rc.FS(201, "escaped-target"), rc.F(202, rc.PathS("dir", "sub")), rc.F(212, rc.Path()))
		call(200, rc.F(202, rc.PathS("escaped-target")))
		call(206, rc.FS(201, "x.txt"), rc.F(202, rc.PathS("escaped-target")))
	case "upload-folder-target-removed":
		// no hostile bytes: two kinds of operation overlap on one folder. A folder upload into Uploads/Incoming is under
		// way (one item stored, the transfer waits for the next header) when its target is deleted, renamed or moved away
		// by a request; the following items (a nested folder, a file in it, a plain file) then arrive for a target that
		// is gone. Whatever the server makes of them, nothing may appear outside the root (or in the working directory).
		placement = "overlap"
		how := core.Pick(r, []string{"delete", "rename", "move", "delete-parent"})
		h.class = "target-" + how
		desc = fmt.Sprintf("folder upload into Uploads/Incoming whose target is removed (%s) between two items", how)
		rep, ok := call(213, rc.FS(201, "Incoming"), rc.F(202, rc.PathS("Uploads")), rc.F(108, rc.U32(50)), rc.F(220, rc.U16(4)))
		if ref, has := rep.Get(107); ok && rep.Err == 0 && has {
			remove := func() {
				switch how {
				case "delete":
					call(204, rc.FS(201, "Incoming"), rc.F(202, rc.PathS("Uploads")))
				case "rename":
					call(207, rc.FS(201, "Incoming"), rc.F(202, rc.PathS("Uploads")), rc.FS(211, "Renamed"))
				case "move":
					call(208, rc.FS(201, "Incoming"), rc.F(202, rc.PathS("Uploads")), rc.F(212, rc.PathS("Docs")))
				case "delete-parent":
					call(204, rc.FS(201, "Uploads"))
				}
				c.Count("overlap_removals", 1)
			}
			items := []xfer.UpItem{
				{Path: [][]byte{[]byte("first.txt")}, Data: []byte("FOLDER-ITEM-1")},
				{IsFolder: true, Path: [][]byte{[]byte("second"), []byte("third")}, Before: remove},
				{Path: [][]byte{[]byte("second"), []byte("third"), []byte("f.txt")}, Data: []byte("FOLDER-ITEM-2")},
				{Path: [][]byte{[]byte("last.txt")}, Data: []byte("FOLDER-ITEM-3")},
			}
			if r.Bool() { // the removal may also fall before the very first item
				items[0].Before, items[1].Before = remove, nil
			}
			_, t, _ := xfer.FolderUpload(srv, "10.7.0.1:2", ref, items)
			t.Conn.CloseWrite()
			t.WaitDone(xfer.TransferWatchdog)
		}
	case "upload-folder-onto-root":
		// no hostile bytes in the request: an earlier request left an entry called ".incomplete" (a legal name) in the
		// root, and a folder upload is aimed at the root itself (spelled as clients may spell it) with an item whose
		// header carries no path item or only '..' items. The item's partial and final names are then derived from the
		// root's own name: nothing may appear next to the root.
		placement = "item-header"
		spell := core.Pick(r, []string{"", "", ".", "..", "/", "absent"})
		fs := []rc.Field{rc.F(108, rc.U32(50)), rc.F(220, rc.U16(1))}
		if spell != "absent" {
			fs = append(fs, rc.FS(201, spell))
		}
		if r.Bool() {
			fs = append(fs, rc.F(202, rc.Path()))
		}
		var path [][]byte
		for i := r.Intn(3); i > 0; i-- {
			path = append(path, []byte(".."))
		}
		desc = fmt.Sprintf("folder upload onto the root (name %q) holding an entry '.incomplete', item header with %d '..' path items", spell, len(path))
		h.class = fmt.Sprintf("root-%s/dotdot%d", spell, len(path))
		rep, ok := call(213, fs...)
		if ref, has := rep.Get(107); ok && rep.Err == 0 && has {
			_, t, _ := xfer.FolderUpload(srv, "10.7.0.1:2", ref, []xfer.UpItem{{Path: path, Data: []byte("FOLDER-ITEM-ESCAPE-ROOT")}})
			t.Conn.CloseWrite()
			t.WaitDone(xfer.TransferWatchdog)
		}
	case "new-user":
		accountZone, placement = true, "login"
		call(350, rc.F(105, rc.Obfuscate(h.b)), rc.FS(102, "X"), rc.F(106, rc.Obfuscate([]byte("p"))), rc.F(110, make([]byte, 8)))
	case "update-create":
		accountZone, placement = true, "login"
		call(349, rc.F(101, rc.SubFields(rc.F(105, rc.Obfuscate(h.b)), rc.FS(102, "X"), rc.F(106, rc.Obfuscate([]byte("p"))), rc.F(110, make([]byte, 8)))))
	case "update-rename":
		accountZone, placement = true, "new-login"
		call(349, rc.F(101, rc.SubFields(rc.F(101, rc.Obfuscate([]byte("guest"))), rc.F(105, rc.Obfuscate(h.b)), rc.FS(102, "Renamed"), rc.F(106, []byte{0}), rc.F(110, make([]byte, 8)))))
	case "update-delete":
		accountZone, placement = true, "login"
		call(349, rc.F(101, rc.SubFields(rc.F(101, rc.Obfuscate(h.b)))))
	case "set-user":
		accountZone, placement = true, "login"
		call(353, rc.F(105, rc.Obfuscate(h.b)), rc.FS(102, "X"), rc.F(110, make([]byte, 8)))
	case "delete-user":
		accountZone, placement = true, "login"
		call(351, rc.F(105, rc.Obfuscate(h.b)))
	}
	hc := h.class
	if placement == "path" || placement == "destination" {
		hc = p.class
	}
	c.Describe(fmt.Sprintf("%s/%s/%s", kind, placement, hc), map[string]any{"request": desc, "placement": placement, "hostile_class": hc})
	// wait for everything the request set in motion
	cl.Conn.WaitIdle(refclient.Watchdog)
	srv.Quiesce(refclient.Watchdog)
	time.Sleep(time.Millisecond)
	if accountZone {
		// a restart reads every account file back (and may repair or migrate files): that, too, must stay inside the
		// accounts directory, whatever logins the files now carry
		verifshim.NewYAMLAccountManager(filepath.Join(srv.ConfigDir, "Users"))
		c.Count("restarts_after_account_requests", 1)
	}
	if auditMark != nil {
		auditMark("E", sb, accountZone)
	}
	after := fixture.Snapshot(srv.Dir)
	rootRel, _ := filepath.Rel(srv.Dir, zoneRoot)
	usersRel := filepath.Join("config", "Users")
	inZone := func(path string) bool {
		if accountZone {
			return strings.HasPrefix(path, usersRel+"/")
		}
		return path == rootRel || strings.HasPrefix(path, rootRel+"/")
	}
	var outside []string
	for _, d := range fixture.Diff(before, after) {
		fields := strings.SplitN(d, " ", 3)
		if len(fields) >= 2 && !inZone(fields[1]) {
			outside = append(outside, d)
		}
	}
	if len(outside) > 0 {
		zone := "the file root"
		if accountZone {
			zone = "the accounts directory"
		}
		c.Fail("C07/"+kind+"/escape/"+placement, "%s (hostile %s in %s) changed the filesystem outside %s: %v", desc, hc, placement, zone, outside)
	}
	// the worker's working directory starts empty and nothing in the harness writes there: an entry is a file
	// system effect at a relative path, i.e. outside every root (cases of one worker share it, so the entry may stem
	// from a neighbouring case; the effect is outside the root whichever request caused it)
	var stray []string
	for _, e := range core.CwdCanary() {
		if !cwdBefore[e] { // what an earlier case of this worker left is that case's violation, not this one's
			stray = append(stray, e)
		}
	}
	if len(stray) > 0 {
		if len(stray) > 5 {
			stray = stray[:5]
		}
		c.Fail("C07/"+kind+"/escape-cwd/"+placement, "entries appeared in the process working directory (a relative path outside every root) around %s: %q", desc, stray)
	}
	c.Count("cwd_canary_checks", 1)
	// links inside the root must not point outside
	for path, v := range after {
		if strings.HasPrefix(v, "l:") && inZone(path) && before[path] != v {
			target := strings.TrimPrefix(v, "l:")
			if !filepath.IsAbs(target) {
				target = filepath.Join(filepath.Dir(filepath.Join(srv.Dir, path)), target)
			}
			rel, err := filepath.Rel(zoneRoot, filepath.Clean(target))
			if err != nil || rel == ".." || strings.HasPrefix(rel, "../") {
				c.Fail("C07/"+kind+"/link-outside/"+placement, "%s created link %s -> %s which points outside the file root", desc, path, v)
			}
		}
	}
	// disclosure: canary tokens in anything the server sent
	all := append(streams, cl.Conn.Out())
	for _, s := range all {
		if t := sb.leak(s, append(append([]byte{}, h.b...), p.b...)); t != "" {
			c.Fail("C07/"+kind+"/disclosure/"+placement, "%s: the server sent canary token %s (content or name of something outside the file root) to the client", desc, t)
		}
	}
	c.Count("requests", 1)
	c.Count("bytes_scanned_for_canaries", len(cl.Conn.Out()))
}

func clip(b []byte) []byte {
	if len(b) > 255 {
		return b[:255]
	}
	return b
}

// ---------------------------------------------------------------------------------------------
// path audit: every path argument of a file system call made while a hostile request is being handled

// AuditChild is the entry point of `vcheck c07audit <cases> <seed> <tier>`: it runs cases one after the other and
// brackets each request with marker system calls (faccessat on /verif-audit/...), to be run under strace -f.
func AuditChild(n int, seed int64, tier string) int {
	em, _ := core.NewEmitter("")
	idx := 0
	auditMark = func(tag string, sb *sandbox, accountZone bool) {
		zone := sb.zoneRoot
		if accountZone {
			zone = filepath.Join(sb.srv.ConfigDir, "Users")
		}
		syscall.Access(fmt.Sprintf("/verif-audit/%s/%d%s", tag, idx, zone), 0)
	}
	for idx = 0; idx < n; idx++ {
		// the kinds that end in a transfer sleep 3 s each: none in the quick tier, one in six in the thorough tier
		k := kinds[idx%len(kinds)]
		if (k == "download" || k == "download-folder" || strings.HasPrefix(k, "upload")) && (tier == "quick" || (idx/len(kinds))%6 != 0) {
			continue
		}
		simple.RunOne(tier, seed, idx, em)
	}
	return 0
}

var statCall = regexp.MustCompile(`^\d+\s+(newfstatat|lstat|stat|statx|readlink|readlinkat)\(`)

var pathArg = regexp.MustCompile(`"((?:[^"\\]|\\.)*)"`)

func unescape(s string) string {
	// strace prints non-printable bytes as octal/hex escapes; good enough for prefix checks
	return strings.NewReplacer(`\\`, `\`, `\"`, `"`).Replace(s)
}

var auditAllow = []string{"/proc/", "/sys/", "/dev/", "/etc/localtime", "/usr/share/zoneinfo", "/etc/nsswitch.conf", "/etc/passwd", "/verif-audit/", "/usr/lib/go", "/etc/mime.types", "/usr/share/mime"}

func runAudit(b core.Batch, em *core.Emitter) {
	var a struct {
		Cases int `json:"cases"`
	}
	json.Unmarshal(b.Args, &a)
	scratch := core.ScratchDir()
	logf := filepath.Join(scratch, "audit.trace")
	exe, _ := os.Executable()
	cmd := exec.Command("strace", "-f", "-o", logf, "-e", "trace=%file", exe, "c07audit", fmt.Sprint(a.Cases), fmt.Sprint(b.Seed), b.Tier)
	cmd.Env = append(os.Environ(), "VERIF_SCRATCH="+filepath.Join(scratch, "srv"))
	out, err := cmd.CombinedOutput()
	if err != nil {
		em.Emit(core.Result{Case: b.Name, Verdict: core.Inconclusive, Msg: fmt.Sprintf("audit child: %v: %s", err, tail(string(out), 1500))})
		return
	}
	f, err := os.Open(logf)
	if err != nil {
		em.Emit(core.Result{Case: b.Name, Verdict: core.Inconclusive, Msg: err.Error()})
		return
	}
	defer f.Close()
	sc := bufio.NewScanner(f)
	sc.Buffer(make([]byte, 1<<20), 1<<26)
	cur, zone := -1, ""
	calls, audited, ancestorLookups := 0, 0, 0
	type viol struct {
		idx  int
		line string
		path string
	}
	var vs []viol
	seenCase := map[int]bool{}
	for sc.Scan() {
		ln := sc.Text()
		if i := strings.Index(ln, `"/verif-audit/`); i >= 0 {
			rest := ln[i+len(`"/verif-audit/`):]
			var tag string
			var n int
			if _, err := fmt.Sscanf(rest, "%1s/%d", &tag, &n); err == nil {
				if tag == "B" {
					cur = n
					z := rest[strings.Index(rest, "/")+1:]
					z = z[strings.IndexAny(z, "/"):]
					zone = z[:strings.Index(z, `"`)]
					seenCase[n] = true
				} else {
					cur = -1
				}
			}
			continue
		}
		if cur < 0 {
			continue
		}
		for _, m := range pathArg.FindAllStringSubmatch(ln, -1) {
			p := unescape(m[1])
			if !strings.HasPrefix(p, "/") {
				continue // relative arguments (link targets, names relative to an open directory)
			}
			calls++
			cp := filepath.Clean(p)
			ok := cp == zone || strings.HasPrefix(cp, zone+"/")
			// Looking up the metadata of a directory ABOVE the zone is path resolution (the kernel does the same walk
			// for every path; filepath.EvalSymlinks does it call by call): nothing there is read, listed, changed or
			// disclosed. Only the stat family is excused, and only on strict ancestors of the zone.
			if !ok && strings.HasPrefix(zone, cp+"/") && statCall.MatchString(ln) {
				ok = true
				ancestorLookups++
			}
			for _, al := range auditAllow {
				if strings.HasPrefix(cp, al) {
					ok = true
				}
			}
			if !ok {
				vs = append(vs, viol{cur, ln, cp})
			}
		}
		audited++
	}
	obs := map[string]int{"audited_system_calls": audited, "audited_path_arguments": calls, "audited_requests": len(seenCase), "metadata_lookups_on_ancestors_of_the_root": ancestorLookups}
	if len(seenCase) == 0 {
		em.Emit(core.Result{Case: b.Name, Verdict: core.Inconclusive, Msg: "no marker found in the trace", Obs: obs})
		return
	}
	reported := map[string]bool{}
	for _, v := range vs {
		kind := kinds[v.idx%len(kinds)]
		base := filepath.Base(v.path)
		cls := "other"
		switch {
		case strings.HasPrefix(base, ".info_"), strings.HasPrefix(base, ".rsrc_"), strings.HasSuffix(base, ".incomplete"):
			cls = "side-file-of-the-root"
		case base == filepath.Base(zone) || strings.HasPrefix(zone, v.path):
			cls = "ancestor-of-the-root"
		}
		key := fmt.Sprintf("C07/path-audit/%s/%s", kind, cls)
		if reported[key] {
			continue
		}
		reported[key] = true
		em.Emit(core.Result{Case: fmt.Sprintf("%s/case%d", b.Name, v.idx), Class: "audit/" + kind, Verdict: core.Violated, Key: key, Obs: obs,
			Replay: map[string]any{"index": v.idx, "seed": b.Seed, "tier": b.Tier},
			Msg:    fmt.Sprintf("while handling hostile request #%d (%s) the server made a file system call on %q, outside %q: %s", v.idx, kind, v.path, zone, tail(v.line, 300))})
		obs = nil
	}
	if len(vs) == 0 {
		em.Emit(core.Result{Case: b.Name + "/summary", Class: "audit/all-inside", Verdict: core.Held, Obs: obs,
			Sample: map[string]any{"audited_requests": len(seenCase), "audited_system_calls": audited}})
		em.Emit(core.Result{Case: b.Name + "/calls", Class: "audit/calls", Verdict: core.Held})
	}
}

func tail(s string, n int) string {
	if len(s) > n {
		return s[len(s)-n:]
	}
	return s
}
