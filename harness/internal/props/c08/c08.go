// Package c08: downloads deliver exactly the file's bytes.
package c08

import (
	"bytes"
	"context"
	"encoding/json"
	"fmt"
	"io"
	"net"
	"os"
	"path/filepath"
	"strings"
	"time"

	"verifharness/internal/core"
	"verifharness/internal/fixture"
	"verifharness/internal/refclient"
	rc "verifharness/internal/refcodec"
	"verifharness/internal/xfer"
)

func init() {
	core.Register(&core.Simple{
		Id: "C08", Lvl: "exploration", Quick: 640, Thorough: 20000, PerBatch: 160, Width: 160, Timeout: 1800,
		RuleText: "each case downloads one generated file (sizes 0,1,2,511,512,513,32767,32768,32769,65536,1 MiB and random, thorough up to 16 MiB; names over ASCII and Mac-Roman high bytes, in the root or a sub-folder (an eighth of the requests name the folder by a path of 250-300 items); with/without stored info and resource forks (comments up to 40 KB); in a sixth of the cases a stale '<name>.incomplete' of an interrupted upload sits next to the complete file) in one mode: full (a few of them read by a peer with a 32 KiB window that stalls for 11 s mid-transfer), resume at k in {0,1,size/2,size-1,size,random}, or preview (the option sent as a 2-byte or a 4-byte integer); the request goes through the real connection loop, the transfer through the real handleFileTransfer; a reference client reads the whole stream until the handler returns and a reference parser checks header consistency, exactly file[k:], resource fork framing, and the reply's size fields. a TCP batch runs the real ServeFileTransfers accept loop with two overlapping downloads (a short one accepted first, a long one read slowly that outlives the first handler). distinct = (size class, mode, forks, name class); non-trivial = size > 0",
		Case:     runCase,
		Extra: func(tier string, seed int64) []core.Batch {
			n := 3
			if tier == "thorough" {
				n = 40
			}
			a, _ := json.Marshal(map[string]int{"runs": n})
			return []core.Batch{{Name: "tcp-overlap", Args: a, Timeout: 1500}}
		},
		RunExtra: runTCPOverlap,
	})
}

// runTCPOverlap drives the real accept loop of the transfer port (ServeFileTransfers) over loopback TCP: a short
// download is accepted first, a long one (read slowly by its peer) is accepted while the first handler is still
// winding down (it returns 3 s after its last byte) and is still running when that happens. Both must deliver exactly
// their file.
func runTCPOverlap(b core.Batch, em *core.Emitter) {
	var a struct {
		Runs int `json:"runs"`
	}
	json.Unmarshal(b.Args, &a)
	core.Parallel(a.Runs, 8, func(run int) {
		id := fmt.Sprintf("C08/tcp-overlap/%d", run)
		core.SafeCase(em, id, func() {
			em.Begin(id, nil)
			r := core.NewRand(b.Seed, uint64(run), 0x08)
			small, large := r.Bytes(1000+r.Intn(5000)), r.Bytes(6<<20+r.Intn(1<<20))
			srv, err := fixture.New(fixture.Options{Files: func(root string) {
				os.WriteFile(filepath.Join(root, "small.bin"), small, 0644)
				os.WriteFile(filepath.Join(root, "large.bin"), large, 0644)
			}})
			if err != nil {
				em.Emit(core.Result{Case: id, Verdict: core.Inconclusive, Msg: err.Error()})
				return
			}
			defer srv.Close()
			ln, err := net.Listen("tcp", "127.0.0.1:0")
			if err != nil {
				em.Emit(core.Result{Case: id, Verdict: core.Inconclusive, Msg: err.Error()})
				return
			}
			defer ln.Close()
			ctx, cancel := context.WithCancel(context.Background())
			defer cancel()
			go srv.S.ServeFileTransfers(ctx, ln)
			cl, err := refclient.LoginAs(srv, "10.8.9.1:1", "admin", "", "Overlap")
			if err != nil {
				em.Emit(core.Result{Case: id, Verdict: core.Inconclusive, Msg: err.Error()})
				return
			}
			fetch := func(name string, pauseAfterHeader time.Duration) ([]byte, error) {
				d := xfer.RequestDownload(cl, []byte(name), nil, -1, false)
				if !d.OK {
					return nil, fmt.Errorf("download request refused: %v", d.Reply)
				}
				conn, err := net.Dial("tcp", ln.Addr().String())
				if err != nil {
					return nil, err
				}
				defer conn.Close()
				conn.SetDeadline(time.Now().Add(60 * time.Second))
				if _, err := conn.Write(rc.Preamble(d.Ref, 0)); err != nil {
					return nil, err
				}
				buf := make([]byte, 200)
				if _, err := io.ReadFull(conn, buf); err != nil {
					return nil, fmt.Errorf("reading the start of the stream: %w", err)
				}
				time.Sleep(pauseAfterHeader)
				rest, _ := io.ReadAll(conn)
				return append(buf, rest...), nil
			}
			type got struct {
				b   []byte
				err error
			}
			ca, cb := make(chan got, 1), make(chan got, 1)
			go func() { x, err := fetch("small.bin", 0); ca <- got{x, err} }()
			time.Sleep(300 * time.Millisecond)                                                     // the short transfer is accepted first ...
			go func() { x, err := fetch("large.bin", 4500*time.Millisecond); cb <- got{x, err} }() // ... the long one is read slowly and outlives it
			ga, gb := <-ca, <-cb
			res := core.Result{Case: id, Class: "tcp-overlap", Verdict: core.Held, Obs: map[string]int{"overlapping_tcp_downloads": 2},
				Sample: map[string]any{"short_file_bytes": len(small), "long_file_bytes": len(large)}}
			for _, x := range []struct {
				name string
				g    got
				want []byte
			}{{"short", ga, small}, {"long", gb, large}} {
				if x.g.err != nil {
					res.Verdict, res.Msg = core.Inconclusive, x.name+" download: "+x.g.err.Error()
					break
				}
				if !bytes.Contains(x.g.b, x.want) {
					res.Verdict, res.Key = core.Violated, "C08/tcp-overlap/data"
					res.Msg = fmt.Sprintf("two downloads overlapped on the transfer port (the short one accepted first, the long one read slowly): the %s download delivered %d bytes which do not contain the file's %d bytes", x.name, len(x.g.b), len(x.want))
					break
				}
			}
			em.Emit(res)
		})
	})
}

var sizes = []int{0, 1, 2, 511, 512, 513, 32767, 32768, 32769, 65536, 1 << 20}

func sizeClass(n int) string {
	switch {
	case n == 0:
		return "0"
	case n < 512:
		return "<512"
	case n <= 513:
		return "512±1"
	case n < 32767:
		return "<32K"
	case n <= 32769:
		return "32K±1"
	case n <= 65536:
		return "<=64K"
	case n <= 1<<20:
		return "<=1M"
	}
	return ">1M"
}

func genName(r *core.Rand) ([]byte, string) {
	switch r.Intn(4) {
	case 0:
		n := 1 + r.Intn(30)
		b := r.Printable(n)
		for i := range b {
			if r.Chance(1, 3) {
				b[i] = byte(0x80 + r.Intn(0x80))
			}
		}
		b[0] = 'm'
		return b, "macroman"
	case 1:
		return append([]byte("file with spaces "), r.Printable(5)...), "spaces"
	case 2:
		b := append([]byte("x"), r.Printable(60+r.Intn(60))...)
		return append(b, []byte(".txt")...), "long"
	}
	exts := []string{".txt", ".sit", ".jpg", ".pdf", "", ".incomplete.bak", ".zip"}
	return append(append([]byte("f"), r.Printable(1+r.Intn(12))...), []byte(core.Pick(r, exts))...), "plain"
}

func clean(b []byte) []byte {
	for i := range b {
		if b[i] == '/' || b[i] == 0 {
			b[i] = '_'
		}
	}
	return b
}

func runCase(c *core.Case) {
	r := c.R
	size := core.Pick(r, sizes)
	if r.Chance(1, 3) {
		size = r.Intn(200000)
	}
	if c.Tier == "thorough" && r.Chance(1, 40) {
		size = (1 << 20) + r.Intn(15<<20)
	}
	if c.Index%160 == 7 {
		size = 200000 + r.Intn(200000) // the slow-reader cases need a file well above the peer's 32 KiB window
	}
	name, nameClass := genName(r)
	name = clean(name)
	data := r.Bytes(size)
	var sub [][]byte
	if r.Chance(1, 3) {
		sub = [][]byte{clean(append([]byte("dir "), r.Printable(4)...))}
	}
	disk := xfer.MacToUTF8(name)
	forks := core.Pick(r, []string{"none", "none", "info", "info+rsrc", "rsrc"})
	var rsrc, comment []byte
	if forks == "info+rsrc" || forks == "rsrc" {
		rsrc = r.Bytes(1 + r.Intn(5000))
	}
	if forks == "info" || forks == "info+rsrc" {
		comment = r.Printable(r.Intn(200))
		if r.Chance(1, 5) {
			// long comments: the header then exceeds the 512-byte and, for the longest, the 32 KiB read sizes
			comment = r.Printable(core.Pick(r, []int{374, 600, 5000, 33000, 40000}))
		}
	}
	stalePartial := r.Chance(1, 6)
	if stalePartial {
		c.Count("stale_partial_next_to_the_file", 1)
	}
	srv, err := fixture.New(fixture.Options{PreserveForks: r.Bool(), Files: func(root string) {
		dir := root
		for _, s := range sub {
			dir = filepath.Join(dir, xfer.MacToUTF8(s))
		}
		os.MkdirAll(dir, 0755)
		os.WriteFile(filepath.Join(dir, disk), data, 0644)
		if comment != nil || forks == "info" || forks == "info+rsrc" {
			info := rc.InfoFork{Name: name, Comment: comment}
			copy(info.Platform[:], "AMAC")
			copy(info.Type[:], "TEXT")
			copy(info.Creator[:], "ttxt")
			os.WriteFile(filepath.Join(dir, ".info_"+disk), info.Encode(), 0644)
		}
		if rsrc != nil {
			os.WriteFile(filepath.Join(dir, ".rsrc_"+disk), rsrc, 0644)
		}
		if stalePartial {
			// what an interrupted upload of the same name leaves behind when another file is later renamed to it
			os.WriteFile(filepath.Join(dir, disk+".incomplete"), []byte("stale partial upload "+strings.Repeat("?", 70000)), 0644)
		}
	}})
	if err != nil {
		c.Unsure("fixture: %v", err)
		return
	}
	defer srv.Close()
	cl, err := refclient.LoginAs(srv, "10.8.0.1:1", "admin", "", "Downloader")
	if err != nil {
		c.Unsure("login: %v", err)
		return
	}
	mode := core.Pick(r, []string{"full", "full", "resume", "resume", "resume", "preview"})
	slow := c.Index%160 == 7 // a few downloads are read by a peer that stalls for 11 s in the middle
	if slow {
		mode = "full"
	}
	k := -1
	if mode == "resume" {
		k = core.Pick(r, []int{0, 1, size / 2, size - 1, size, r.Intn(size + 1)})
		if k < 0 {
			k = 0
		}
		if k > size {
			k = size
		}
	}
	koff := 0
	if k > 0 {
		koff = k
	}
	c.Describe(fmt.Sprintf("%s/%s/%s/%s", sizeClass(size), mode, forks, nameClass),
		map[string]any{"size": size, "mode": mode, "resume_offset": k, "stored_forks": forks, "name": fmt.Sprintf("%q", name), "folder": len(sub) > 0})
	if size == 0 {
		c.Describe("", map[string]any{"size": 0, "mode": mode})
	}
	widePreview := mode == "preview" && r.Bool()
	if widePreview {
		c.Count("preview_option_as_4_bytes", 1)
	}
	reqPath := sub
	if r.Chance(1, 8) {
		// the same folder named by a path of 250-300 items: "." items in front of the real ones
		pad := 250 + r.Intn(51)
		reqPath = nil
		for i := 0; i < pad; i++ {
			reqPath = append(reqPath, []byte("."))
		}
		reqPath = append(reqPath, sub...)
		c.Count("paths_of_250_to_300_items", 1)
	}
	if r.Chance(1, 6) {
		// the same session asked for this file a moment ago in another way (resumed from some offset, or as a
		// preview) and never collected that transfer: the request judged below is a new one and must be served as asked
		ek, eprev := -1, r.Bool()
		if !eprev {
			ek = r.Intn(size + 1)
		}
		xfer.RequestDownloadEnc(cl, name, reqPath, ek, eprev, false)
		c.Count("requests_preceded_by_an_uncollected_request_for_the_same_file", 1)
	}
	d := xfer.RequestDownloadEnc(cl, name, reqPath, k, mode == "preview", widePreview)
	if !d.OK {
		c.Fail("C08/request-refused", "download request for an existing file refused: %v", d.Reply)
		return
	}
	if len(d.Ref) != 4 {
		c.Fail("C08/reply/refnum", "reference number field is %x", d.Ref)
		return
	}
	if r.Chance(1, 5) {
		// while the transfer is pending, another user looks at the downloader's client info (which lists the transfer)
		if spy, err := refclient.LoginAs(srv, "10.8.0.9:1", "admin", "", "Curious"); err == nil {
			if ul, ok := spy.Call(300); ok {
				us, _ := refclient.UserList(ul)
				for _, u := range us {
					if string(u.Name) == "Downloader" {
						spy.Call(303, rc.F(103, rc.U16(int(u.ID))))
						c.Count("client_info_requests_while_the_transfer_was_pending", 1)
					}
				}
			}
		}
	}
	remaining := size - koff
	if !d.HasSize || d.FileSize != remaining {
		c.Fail("C08/reply/file-size", "%s (size %d, offset %d): reply announces file size %d (present %v), remaining data length is %d", mode, size, k, d.FileSize, d.HasSize, remaining)
	}
	var run xfer.Run
	if slow {
		// the peer's receive window is 32 KiB: the server can only write as fast as the peer reads
		t := refclient.OpenTransfer(srv, "10.8.0.1:2")
		t.Conn.Backpressure = 32 << 10
		t.Conn.Send(rc.Preamble(d.Ref, 0))
		first := make([]byte, min(300, remaining/2+1))
		t.Conn.ClientReadFull(first, refclient.Watchdog, t.Conn.HandlerDone)
		time.Sleep(11 * time.Second)
		buf := make([]byte, 64<<10)
		for {
			if _, err := t.Conn.ClientRead(buf, xfer.TransferWatchdog, t.Conn.HandlerDone); err != nil {
				break
			}
		}
		run = xfer.Finish(t)
		c.Count("slow_reader_downloads", 1)
	} else {
		run = xfer.Download(srv, "10.8.0.1:2", d.Ref)
	}
	if !run.Done {
		c.Unsure("transfer handler did not return")
		return
	}
	out := run.Out
	c.Count("bytes_streamed", len(out))
	if mode == "preview" {
		if !d.HasXfer || d.Transfer != remaining {
			c.Fail("C08/reply/preview-transfer-size", "preview: reply announces transfer size %d, data length is %d", d.Transfer, remaining)
		}
		if len(out) < remaining || !bytes.Equal(out[:remaining], data[koff:]) {
			c.Fail("C08/stream/preview-data", "preview: the first %d bytes of the stream are not the file's data (stream %d bytes: %s)", remaining, len(out), xfer.Describe(out))
		}
		return
	}
	hdr, err := rc.ParseFlatHeader(out)
	if err != nil {
		c.Fail("C08/stream/header", "%s of %q (size %d, forks %s): flattened header inconsistent: %v; stream starts %s", mode, name, size, forks, err, xfer.Describe(out))
		return
	}
	// on a resumed download the statement constrains the bytes that follow, not the DATA fork header's size
	// field (the code announces the whole fork there); it is judged for full downloads only
	if mode == "full" && hdr.DataSize != remaining {
		c.Fail("C08/stream/data-fork-size", "%s (size %d, offset %d): DATA fork header announces %d bytes, remaining data is %d", mode, size, k, hdr.DataSize, remaining)
	}
	if mode == "full" {
		// the header's fork count is what tells a client whether a resource fork follows the data
		wantForks := 2
		if rsrc != nil {
			wantForks = 3
		}
		if hdr.ForkCount != wantForks {
			c.Fail("C08/stream/fork-count", "full download of %q (forks %s): header announces %d forks, %d are on the stream (stored resource fork: %v)", name, forks, hdr.ForkCount, wantForks, rsrc != nil)
		}
	}
	body := out[hdr.HeaderLen:]
	if len(body) < remaining || !bytes.Equal(body[:remaining], data[koff:]) {
		n := len(body)
		if n > remaining {
			n = remaining
		}
		first := 0
		for first < n && body[first] == data[koff+first] {
			first++
		}
		c.Fail("C08/stream/data", "%s (size %d, offset %d): data after the header is not file[%d:]: stream carries %d body bytes, first difference at body offset %d", mode, size, k, koff, len(body), first)
		return
	}
	tail := body[remaining:]
	if mode == "resume" {
		if !bytes.Equal(tail, rsrc) {
			c.Fail("C08/stream/resume-tail", "resume: %d bytes follow the data, stored resource fork has %d bytes", len(tail), len(rsrc))
		}
	} else {
		if len(tail) == 0 && rsrc == nil {
			// nothing after the data is fine for a file without resource fork
		} else if len(tail) < 16 || string(tail[:4]) != "MACR" {
			c.Fail("C08/stream/rsrc-header", "full download: %d bytes follow the data but they do not start with a MACR fork header: %s", len(tail), xfer.Describe(tail))
		} else {
			n := int(uint32(tail[12])<<24 | uint32(tail[13])<<16 | uint32(tail[14])<<8 | uint32(tail[15]))
			if n != len(rsrc) || !bytes.Equal(tail[16:], rsrc) {
				c.Fail("C08/stream/rsrc", "resource fork header announces %d bytes, %d follow, stored fork has %d bytes", n, len(tail)-16, len(rsrc))
			}
		}
	}
	if rsrc == nil {
		want := hdr.HeaderLen + remaining
		if !d.HasXfer || d.Transfer != want {
			c.Fail("C08/reply/transfer-size", "%s of a file without resource fork (size %d, offset %d): reply announces transfer size %d, header %d + remaining data %d = %d", mode, size, k, d.Transfer, hdr.HeaderLen, remaining, want)
		}
	}
	if !bytes.Equal(hdr.Info.Name, name) && forks == "none" {
		// the header's name must be the file's name as the client addresses it? The statement only demands
		// consistent lengths; record as an observation.
		c.Count("header_name_differs_from_requested", 1)
	}
}
