// Package c09: uploads are exact, published atomically, and resumable after any cut.
package c09

import (
	"bytes"
	"fmt"
	"os"
	"path/filepath"
	"time"

	"verifharness/internal/core"
	"verifharness/internal/fixture"
	"verifharness/internal/refclient"
	rc "verifharness/internal/refcodec"
	"verifharness/internal/transport"
	"verifharness/internal/xfer"
)

func init() {
	core.Register(&core.Simple{
		Id: "C09", Lvl: "exploration", Quick: 480, Thorough: 16000, PerBatch: 160, Width: 160, Timeout: 2400,
		RuleText: "each case uploads one generated file (sizes 0..200 KiB, thorough up to 8 MiB; ASCII and Mac-Roman names; with/without resource fork; preserve-forks on/off) through a chain of 0-4 connection cuts (EOF or read error) followed by resume attempts until completion; cut offsets sweep every byte of the preamble+flattened header region across the cases of a run (case index modulo region length) and sample the data and resource-fork regions and hit every structural boundary (end of preamble, FILP header, INFO header, info fork, DATA header, data, resource-fork header) exactly and at +-1; after every cut the final name must be absent and the partial file equal to the data prefix delivered, the resume offset in field 203 must equal the partial's size, the completed file must equal the original and a later download must return it; after a quarter of the cuts another session attempts a resume with a damaged header (information fork shorter than any real one), which must neither publish nor change the partial. Other modes: an upload whose header announces a data fork of 2^31-1 .. 2^32-1 bytes and is cut after a few KB (nothing published, partial = what was delivered), upload onto an existing name (refused, untouched), a stale reference number after the name was taken, and a cut inside the resume branch of a folder upload. distinct = (mode, first cut region, number of cuts, size class, preserve flag); non-trivial = at least one cut or a refusal mode",
		Case:     runCase,
	})
}

func readOrNil(p string) []byte {
	b, err := os.ReadFile(p)
	if err != nil {
		return nil
	}
	return b
}

func exists(p string) bool { _, err := os.Lstat(p); return err == nil }

func region(c, hdrEnd, dataEnd int) string {
	switch {
	case c < 16:
		return "preamble"
	case c < hdrEnd:
		return "header"
	case c < dataEnd:
		return "data"
	}
	return "rsrc"
}

func runCase(c *core.Case) {
	r := c.R
	mode := "cuts"
	switch c.Index % 12 {
	case 9:
		mode = "existing"
	case 10:
		mode = "stale-ref"
	case 11:
		mode = "folder-resume-cut"
	case 8:
		if c.Index%24 == 8 {
			mode = "huge-declared"
		}
	}
	size := core.Pick(r, []int{0, 1, 2, 100, 511, 512, 513, 4096, 32768, 32769, 70000, 200000})
	if r.Chance(1, 3) {
		size = r.Intn(100000)
	}
	if c.Tier == "thorough" && r.Chance(1, 50) {
		size = (1 << 20) + r.Intn(7<<20)
	}
	data := r.Bytes(size)
	name := append([]byte("up-"), r.Printable(1+r.Intn(20))...)
	if r.Chance(1, 3) {
		name = append(name, byte(0x80+r.Intn(0x80)), byte(0x80+r.Intn(0x80)))
	}
	if r.Chance(1, 4) {
		name = append(name, []byte(".txt")...)
	}
	for i := range name {
		if name[i] == '/' {
			name[i] = '_'
		}
	}
	disk := xfer.MacToUTF8(name)
	var rsrc []byte
	if r.Chance(1, 4) {
		rsrc = r.Bytes(1 + r.Intn(3000))
	}
	comment := r.Printable(r.Intn(40))
	preserve := r.Bool()
	srv, err := fixture.New(fixture.Options{PreserveForks: preserve, Files: func(root string) {
		os.MkdirAll(filepath.Join(root, "Uploads"), 0755)
	}})
	if err != nil {
		c.Unsure("fixture: %v", err)
		return
	}
	defer srv.Close()
	cl, err := refclient.LoginAs(srv, "10.9.1.1:1", "admin", "", "Uploader")
	if err != nil {
		c.Unsure("login: %v", err)
		return
	}
	dir := filepath.Join(srv.FileRoot, "Uploads")
	final := filepath.Join(dir, disk)
	partial := final + ".incomplete"
	path := [][]byte{[]byte("Uploads")}

	switch mode {
	case "existing":
		old := r.Bytes(1 + r.Intn(500))
		os.WriteFile(final, old, 0644)
		u := xfer.RequestUpload(cl, name, path, size, false)
		c.Describe("existing/"+fmt.Sprint(size > 0), map[string]any{"mode": mode, "name": fmt.Sprintf("%q", name)})
		if u.OK {
			// the server handed out a reference number for an existing name: use it and see whether the file survives
			t := xfer.Start(srv, "10.9.1.1:2", u.Ref, len(data), [][]byte{xfer.UploadStream(name, comment, data, nil)})
			t.Conn.CloseWrite()
			xfer.Finish(t)
		} else if !u.Answered || u.Reply.Err == 0 {
			c.Fail("C09/existing/no-error", "upload request onto an existing file got no error reply: %v", u.Reply)
		}
		if !bytes.Equal(readOrNil(final), old) {
			c.Fail("C09/existing/overwritten", "an upload onto the existing file %q changed it (request granted: %v)", name, u.OK)
		}
		return
	case "stale-ref":
		c.Describe("stale-ref/"+fmt.Sprint(size > 0), map[string]any{"mode": mode, "name": fmt.Sprintf("%q", name)})
		u1 := xfer.RequestUpload(cl, name, path, size, false)
		u2 := xfer.RequestUpload(cl, name, path, size, false)
		if !u1.OK || !u2.OK {
			c.Fail("C09/request-refused", "upload request for a free name refused: %v", u1.Reply)
			return
		}
		first := r.Bytes(1 + r.Intn(800))
		t := xfer.Start(srv, "10.9.1.1:2", u2.Ref, len(first), [][]byte{xfer.UploadStream(name, comment, first, nil)})
		if run := xfer.Finish(t); !run.Done {
			c.Unsure("handler did not return")
			return
		}
		if !bytes.Equal(readOrNil(final), first) {
			c.Fail("C09/complete/content", "completed upload differs from what was sent")
			return
		}
		// the older reference number now points at a name that exists
		t = xfer.Start(srv, "10.9.1.1:3", u1.Ref, len(data), [][]byte{xfer.UploadStream(name, comment, data, nil)})
		t.Conn.CloseWrite()
		xfer.Finish(t)
		if !bytes.Equal(readOrNil(final), first) {
			c.Fail("C09/stale-ref/overwritten", "a transfer with an older reference number replaced or changed the file that had meanwhile been uploaded under the same name")
		}
		return
	case "folder-resume-cut":
		folderResumeCut(c, srv, cl, name, disk, data)
		return
	case "huge-declared":
		// the header announces a data fork around the 2 GiB / 4 GiB marks; the client delivers a little of it and the
		// connection dies: nothing may appear under the final name, the partial holds what was delivered
		declared := core.Pick(r, []int64{1<<31 - 1, 1 << 31, 1<<31 + 1, 1<<32 - 1})
		c.Describe(fmt.Sprintf("huge-declared/%d", declared), map[string]any{"mode": mode, "declared_data_bytes": declared})
		u := xfer.RequestUpload(cl, name, path, int(declared), false)
		if !u.OK {
			c.Unsure("upload request refused: %v", u.Reply)
			return
		}
		sent := r.Bytes(1 + r.Intn(5000))
		hdr := xfer.UploadStream(name, comment, nil, nil) // header for an empty data fork ...
		hdr[len(hdr)-4], hdr[len(hdr)-3], hdr[len(hdr)-2], hdr[len(hdr)-1] = byte(declared>>24), byte(declared>>16), byte(declared>>8), byte(declared) // ... whose DATA fork size is then set
		t := refclient.OpenTransfer(srv, "10.9.1.1:7")
		t.Conn.Send(rc.Preamble(u.Ref, int(declared&0x7fffffff)))
		t.Conn.Send(append(hdr, sent...))
		t.Conn.CloseWrite()
		select {
		case <-t.Conn.Done:
		case <-time.After(xfer.TransferWatchdog):
			c.Unsure("handler did not return after the cut")
			return
		}
		c.Count("huge_declared_uploads_cut", 1)
		if exists(final) {
			c.Fail("C09/huge-declared/final-name-present", "an upload announcing %d data bytes was cut after %d: the final name %q exists with %d bytes", declared, len(sent), name, len(readOrNil(final)))
			return
		}
		if p := readOrNil(partial); !bytes.Equal(p, sent) {
			c.Fail("C09/huge-declared/partial-differs", "an upload announcing %d data bytes was cut after %d: the partial file holds %d bytes (equal prefix: %v)", declared, len(sent), len(p), bytes.HasPrefix(sent, p))
		}
		return
	}

	// ---- cut chains ----
	hdrLen := xfer.HeaderLen(name, comment)
	hdrEnd := 16 + hdrLen
	nCuts := c.R.Intn(4)
	if c.Index%3 == 0 {
		nCuts = 1 + c.R.Intn(3)
	}
	have := 0 // data bytes the partial file must hold
	var other *refclient.Client
	firstRegion := "none"
	var trail []string
	for attempt := 0; ; attempt++ {
		if attempt > 8 {
			c.Unsure("too many attempts")
			return
		}
		resume := attempt > 0
		u := xfer.RequestUpload(cl, name, path, size, resume)
		if resume && !u.Answered {
			// no partial on the server: a client falls back to a fresh upload
			if exists(partial) {
				c.Fail("C09/resume/not-offered", "resume request unanswered although %q exists with %d bytes", filepath.Base(partial), len(readOrNil(partial)))
				return
			}
			u = xfer.RequestUpload(cl, name, path, size, false)
			have = 0
		}
		if !u.OK {
			c.Fail("C09/request-refused", "attempt %d: upload request (resume=%v) refused: %v; trail %v", attempt, resume, u.Reply, trail)
			return
		}
		offset := 0
		if resume && u.HasResume {
			offset = u.Offset
			got := len(readOrNil(partial))
			if offset != got || offset != have {
				c.Fail("C09/resume/offset", "attempt %d: server reports resume offset %d; partial file holds %d bytes; %d data bytes were delivered so far; trail %v", attempt, offset, got, have, trail)
				return
			}
			c.Count("resumes", 1)
		} else if resume && u.Answered && !u.HasResume {
			offset = 0
		}
		if offset > len(data) {
			c.Fail("C09/resume/offset", "resume offset %d beyond the file size %d", offset, len(data))
			return
		}
		stream := append(rc.Preamble(u.Ref, size), xfer.UploadStream(name, comment, data[offset:], rsrc)...)
		dataEnd := hdrEnd + len(data) - offset
		cut := -1
		if attempt < nCuts {
			infoEnd := 16 + 24 + 16 + 72 + len(name) + 2 + len(comment) // the byte after the info fork
			switch {
			case r.Chance(1, 3):
				// structural boundaries (end of preamble, FILP header, INFO fork header, info fork, DATA fork header,
				// data, resource fork header), exactly and one byte to either side
				b := core.Pick(r, []int{16, 16 + 24, 16 + 40, infoEnd, hdrEnd, dataEnd, dataEnd + 16})
				cut = b + core.Pick(r, []int{0, 0, 0, -1, 1})
				if cut < 0 {
					cut = 0
				}
			case attempt == 0 && c.Index%3 == 0:
				cut = (c.Index / 3) % (hdrEnd + 1) // sweep of the whole header region across cases
			case r.Chance(1, 3):
				cut = r.Intn(hdrEnd + 1)
			case rsrc != nil && r.Chance(1, 3):
				cut = dataEnd + r.Intn(len(stream)-dataEnd)
			default:
				cut = hdrEnd + r.Intn(len(data)-offset+1)
			}
			if cut >= len(stream) {
				cut = len(stream) - 1
			}
		}
		t := refclient.OpenTransfer(srv, fmt.Sprintf("10.9.1.1:%d", 10+attempt))
		if cut < 0 {
			// the 16-byte preamble travels in one piece here; how the stream is segmented is C02's subject
			t.Conn.Send(stream[:16])
			t.Conn.Send(transport.Partition(stream[16:], []int{1 + r.Intn(5000)})...)
			// the client keeps the connection open until the server is done (no EOF needed)
			run := xfer.Finish(t)
			if !run.Done {
				c.Unsure("handler did not return")
				return
			}
			if run.Err != nil {
				trail = append(trail, fmt.Sprintf("final attempt (offset %d) ended with: %v", offset, run.Err))
			}
			break
		}
		reg := region(cut, hdrEnd, dataEnd)
		if attempt == 0 {
			firstRegion = reg
		}
		trail = append(trail, fmt.Sprintf("cut@%d(%s,offset %d)", cut, reg, offset))
		t.Conn.Send(stream[:cut])
		if r.Bool() {
			t.Conn.CloseWrite()
		} else {
			t.Conn.Fail(transport.ErrInjected)
		}
		select {
		case <-t.Conn.Done:
		case <-time.After(xfer.TransferWatchdog):
			c.Unsure("handler did not return after a cut")
			return
		}
		c.Count("cuts_"+reg, 1)
		delivered := cut - hdrEnd
		if delivered < 0 {
			delivered = 0
		}
		if delivered > len(data)-offset {
			delivered = len(data) - offset
		}
		if cut >= 16 {
			have = offset + delivered
		}
		if exists(final) {
			c.Fail("C09/cut/final-name-present", "after a cut at stream offset %d (%s): the final name %q exists (%d bytes) although the upload did not complete; trail %v", cut, reg, name, len(readOrNil(final)), trail)
			return
		}
		if p := readOrNil(partial); !bytes.Equal(p, data[:have]) {
			c.Fail("C09/cut/partial-differs", "after a cut at stream offset %d (%s): partial file holds %d bytes, the client delivered the first %d data bytes (equal prefix: %v); trail %v", cut, reg, len(p), have, bytes.HasPrefix(data, p), trail)
			return
		}
		if have > 0 && have < len(data) && r.Chance(1, 4) {
			// a resume attempt from another session that goes wrong in the header: the flattened-file header it sends
			// carries an information fork shorter than any real one, then its connection ends. Whatever the server makes
			// of that, the partial must not appear under the final name and must keep the bytes received so far.
			if other == nil {
				other, _ = refclient.LoginAs(srv, "10.9.2.1:1", "admin", "", "Other")
			}
			if other != nil {
				if u2 := xfer.RequestUpload(other, name, path, size, true); u2.OK {
					short := r.Intn(72)
					bad := append(rc.Preamble(u2.Ref, size), rc.FlatHeader(rc.InfoFork{Name: name}, len(data)-have, 2)[:24]...)
					bad = append(bad, rc.ForkHeader("INFO", short)...)
					bad = append(bad, r.Bytes(short)...)
					t2 := refclient.OpenTransfer(srv, fmt.Sprintf("10.9.2.1:%d", 100+attempt))
					t2.Conn.Send(bad[:16])
					t2.Conn.Send(bad[16:])
					t2.Conn.CloseWrite()
					select {
					case <-t2.Conn.Done:
					case <-time.After(xfer.TransferWatchdog):
						c.Unsure("handler did not return after a damaged resume")
						return
					}
					c.Count("damaged_resume_attempts_by_another_session", 1)
					trail = append(trail, fmt.Sprintf("damaged resume by another session (info fork of %d bytes)", short))
					if exists(final) {
						c.Fail("C09/damaged-resume/final-name-present", "after another session's resume attempt with a damaged header (information fork of %d bytes) the final name %q exists with %d bytes although only %d of %d data bytes were ever received; trail %v", short, name, len(readOrNil(final)), have, len(data), trail)
						return
					}
					if p := readOrNil(partial); !bytes.Equal(p, data[:have]) {
						c.Fail("C09/damaged-resume/partial-differs", "after another session's resume attempt with a damaged header the partial file holds %d bytes, %d had been received; trail %v", len(p), have, trail)
						return
					}
				}
			}
		}
	}
	c.Describe(fmt.Sprintf("cuts/%s/n%d/%s/preserve=%v/rsrc=%v", firstRegion, len(trail), sizeClass(size), preserve, rsrc != nil),
		map[string]any{"size": size, "name": fmt.Sprintf("%q", name), "cut_trail": trail, "preserve_forks": preserve, "resource_fork": rsrc != nil})
	if len(trail) == 0 {
		c.Describe("", nil)
	}
	if got := readOrNil(final); !exists(final) || !bytes.Equal(got, data) {
		c.Fail("C09/complete/content", "after completion (trail %v): final file present=%v holds %d bytes, original has %d (equal: %v)", trail, exists(final), len(got), len(data), bytes.Equal(got, data))
		return
	}
	if exists(partial) {
		c.Fail("C09/complete/partial-left", "after completion the partial file still exists")
	}
	// what was uploaded is what a later download returns
	d := xfer.RequestDownload(cl, name, path, -1, false)
	if !d.OK {
		c.Fail("C09/download-after-upload/refused", "download of the uploaded file refused: %v", d.Reply)
		return
	}
	run := xfer.Download(srv, "10.9.1.1:99", d.Ref)
	hdr, err := rc.ParseFlatHeader(run.Out)
	if err != nil || len(run.Out) < hdr.HeaderLen+len(data) || !bytes.Equal(run.Out[hdr.HeaderLen:hdr.HeaderLen+len(data)], data) {
		c.Fail("C09/download-after-upload/differs", "a later download does not return the uploaded bytes (header err %v)", err)
	} else if preserve && !bytes.Equal(hdr.Info.Comment, comment) {
		// with fork preservation on, the information fork the client sent is stored and comes back with the file
		c.Fail("C09/download-after-upload/info-fork", "fork preservation is on: the upload carried the comment %q, a later download returns the comment %q (name %q)", comment, hdr.Info.Comment, hdr.Info.Name)
	}
	c.Count("completed_uploads", 1)
}

func sizeClass(n int) string {
	switch {
	case n == 0:
		return "0"
	case n <= 513:
		return "<=513"
	case n <= 32769:
		return "<=32K"
	}
	return ">32K"
}

// folderResumeCut drives the resume branch of a folder upload through a connection cut.
func folderResumeCut(c *core.Case, srv *fixture.Server, cl *refclient.Client, name []byte, disk string, data []byte) {
	r := c.R
	if len(data) < 4 {
		data = r.Bytes(100 + r.Intn(1000))
	}
	// item names inside a folder upload are used as raw bytes by the server; keep this sub-check to ASCII names
	name = append([]byte("item-"), r.Printable(1+r.Intn(12))...)
	for i := range name {
		if name[i] == '/' {
			name[i] = '_'
		}
	}
	disk = string(name)
	folder := "UpFolder"
	dir := filepath.Join(srv.FileRoot, "Uploads", folder)
	os.MkdirAll(dir, 0755)
	p := 1 + r.Intn(len(data)-2)
	final := filepath.Join(dir, disk)
	partial := final + ".incomplete"
	os.WriteFile(partial, data[:p], 0644)
	rep, ok := cl.Call(213, rc.FS(201, folder), rc.F(202, rc.PathS("Uploads")), rc.F(108, rc.U32(len(data))), rc.F(220, rc.U16(1)))
	c.Describe("folder-resume-cut", map[string]any{"mode": "folder-resume-cut", "partial_bytes": p, "size": len(data)})
	if !ok || rep.Err != 0 {
		c.Fail("C09/folder/request-refused", "folder upload request refused: %v", rep)
		return
	}
	ref, _ := rep.Get(107)
	t := refclient.OpenTransfer(srv, "10.9.1.1:50")
	t.Conn.Send(rc.Preamble(ref, len(data)))
	buf := make([]byte, 2)
	if _, err := t.Conn.ClientReadFull(buf, refclient.Watchdog, t.Conn.HandlerDone); err != nil {
		c.Unsure("no initial action: %v", err)
		return
	}
	t.Conn.Send(rc.FolderItem(false, name))
	if _, err := t.Conn.ClientReadFull(buf, refclient.Watchdog, t.Conn.HandlerDone); err != nil {
		c.Unsure("no action for the item: %v", err)
		return
	}
	if buf[1] != 2 {
		c.Fail("C09/folder/resume-not-offered", "folder upload of a file with a partial on the server: action %x, want resume (2)", buf)
		return
	}
	if _, err := t.Conn.ClientReadFull(buf, refclient.Watchdog, t.Conn.HandlerDone); err != nil {
		c.Unsure("no resume data length")
		return
	}
	rd := make([]byte, int(buf[0])<<8|int(buf[1]))
	t.Conn.ClientReadFull(rd, refclient.Watchdog, t.Conn.HandlerDone)
	forks, err := rc.DecodeResumeData(rd)
	if err != nil || len(forks) == 0 || int(forks[0].Size) != p {
		c.Fail("C09/folder/resume-offset", "folder upload resume data: %v %v, partial has %d bytes", forks, err, p)
		return
	}
	rest := data[p:]
	k := r.Intn(len(rest)) // deliver k < len(rest) bytes of the remainder, then cut
	stream := append(rc.U32(len(rest)), xfer.UploadStream(name, nil, rest, nil)...)
	hdr := 4 + xfer.HeaderLen(name, nil)
	t.Conn.Send(stream[:hdr+k])
	t.Conn.CloseWrite()
	select {
	case <-t.Conn.Done:
	case <-time.After(xfer.TransferWatchdog):
		c.Unsure("handler did not return")
		return
	}
	c.Count("folder_resume_cuts", 1)
	if exists(final) {
		c.Fail("C09/folder-resume-cut/final-name-present", "folder upload, resume branch: the connection was cut after %d of %d remaining bytes but the file appears under its final name with %d bytes (complete file has %d)", k, len(rest), len(readOrNil(final)), len(data))
		return
	}
	if got := readOrNil(partial); !bytes.Equal(got, data[:p+k]) {
		c.Fail("C09/folder-resume-cut/partial-differs", "folder upload, resume branch: partial holds %d bytes, delivered prefix is %d", len(got), p+k)
	}
}
