// Package c10: folder transfers reproduce the tree, item by item.
package c10

import (
	"bytes"
	"fmt"
	"os"
	"path/filepath"
	"sort"
	"strings"

	"verifharness/internal/core"
	"verifharness/internal/fixture"
	"verifharness/internal/refclient"
	rc "verifharness/internal/refcodec"
	"verifharness/internal/xfer"
)

func init() {
	core.Register(&core.Simple{
		Id: "C10", Lvl: "exploration", Quick: 450, Thorough: 15000, PerBatch: 150, Width: 150, Timeout: 2400,
		RuleText: "each case generates a directory tree (depth <= 4, fan-out <= 6, empty folders, hidden files and folders, file sizes 0..40 KiB, names of 1..60 bytes incl. spaces and, in a sixth of them, bytes above 0x7f) and runs one of: folder download with a per-item action script (send / resume at an offset / skip), folder upload into a target that is empty or already holds complete files and .incomplete partials, upload followed by download of the same tree, or an upload whose connection is cut inside one file's data and which is then retried (the cut file must not appear under its final name; the retry must resume it). The reference folder-download client checks: item headers counted = announced item count; items = depth-first walk of names not starting with a dot, each once, with relative paths; for every file the size prefix and the bytes for the chosen action (flattened header consistent, exactly the file's data from the offset); nothing after the last item. The reference folder-upload client checks the action the server chooses per item (send / skip complete / resume from the partial's size) and that the resulting tree equals the streamed tree. distinct = (mode, items class, actions used); non-trivial = tree has at least 3 items",
		Case:     runCase,
	})
}

type node struct {
	name string
	dir  bool
	data []byte
	kids []*node
}

func genName(r *core.Rand, hidden bool) string {
	n := 1 + r.Intn(12)
	if r.Chance(1, 10) {
		n = 40 + r.Intn(20)
	}
	b := r.Printable(n)
	for i := range b {
		if b[i] == '/' {
			b[i] = '_'
		}
	}
	if b[0] == '.' || b[0] == ' ' {
		b[0] = 'x'
	}
	s := strings.TrimRight(string(b), " ") + "e"
	if r.Chance(1, 6) {
		// bytes above 0x7f: item names travel as raw bytes in both directions of a folder transfer and must come back
		// byte for byte
		hb := make([]byte, 1+r.Intn(4))
		for i := range hb {
			hb[i] = byte(0x80 + r.Intn(0x7f))
		}
		s = s[:len(s)/2] + string(hb) + s[len(s)/2:]
	}
	if hidden {
		s = "." + s
	}
	return s
}

func genTree(r *core.Rand, depth int, budget *int) []*node {
	var out []*node
	used := map[string]bool{}
	fan := r.Intn(7)
	for i := 0; i < fan && *budget > 0; i++ {
		hidden := r.Chance(1, 8)
		name := genName(r, hidden)
		if used[name] || strings.HasSuffix(name, ".incomplete") {
			continue
		}
		used[name] = true
		*budget--
		if depth > 0 && r.Chance(1, 3) {
			n := &node{name: name, dir: true}
			if !r.Chance(1, 4) { // some folders stay empty
				n.kids = genTree(r, depth-1, budget)
			}
			out = append(out, n)
		} else {
			sz := core.Pick(r, []int{0, 1, 2, 100, 511, 512, 513, 5000, 32768, 40000})
			if r.Bool() {
				sz = r.Intn(3000)
			}
			out = append(out, &node{name: name, data: r.Bytes(sz)})
		}
	}
	sort.Slice(out, func(i, j int) bool { return out[i].name < out[j].name })
	return out
}

func writeTree(dir string, ns []*node) {
	os.MkdirAll(dir, 0755)
	for _, n := range ns {
		p := filepath.Join(dir, n.name)
		if n.dir {
			writeTree(p, n.kids)
		} else {
			os.WriteFile(p, n.data, 0644)
		}
	}
}

type flat struct {
	path []string
	n    *node
}

// walk lists the nodes depth-first in lexical order; visibleOnly drops entries whose own name starts with a dot
// (their children are still visited, as the statement speaks about each entry's own name).
func walk(ns []*node, prefix []string, visibleOnly bool) []flat {
	var out []flat
	for _, n := range ns {
		p := append(append([]string{}, prefix...), n.name)
		if !visibleOnly || !strings.HasPrefix(n.name, ".") {
			out = append(out, flat{p, n})
		}
		if n.dir {
			out = append(out, walk(n.kids, p, visibleOnly)...)
		}
	}
	return out
}

func joinPath(items [][]byte) string {
	var s []string
	for _, it := range items {
		s = append(s, string(it))
	}
	return strings.Join(s, "/")
}

func download(c *core.Case, srv *fixture.Server, cl *refclient.Client, folder string, parent []string, tree []*node, script bool) bool {
	r := c.R
	want := walk(tree, nil, true)
	fs := []rc.Field{rc.FS(201, folder)}
	if len(parent) > 0 {
		fs = append(fs, rc.F(202, rc.PathS(parent...)))
	}
	rep, ok := cl.Call(210, fs...)
	if !ok || rep.Err != 0 {
		c.Fail("C10/download/request-refused", "folder download request refused: %v", rep)
		return false
	}
	ref, _ := rep.Get(107)
	cntb, _ := rep.Get(220)
	announced, _ := rc.DecodeIntField(cntb)
	actions := map[string]int{}
	offsets := map[string]int{}
	items, t, perr := xfer.FolderDownload(srv, "10.10.0.1:2", ref, len(want)+50, func(i int, it *xfer.DlItem) (int, int) {
		if !script || i >= len(want) {
			return 1, 0
		}
		w := want[i]
		switch r.Intn(6) {
		case 0:
			actions["skip"]++
			return 3, 0
		case 1:
			if !w.n.dir {
				k := core.Pick(r, []int{0, 1, len(w.n.data) / 2, len(w.n.data)})
				if k > len(w.n.data) {
					k = len(w.n.data)
				}
				offsets[strings.Join(w.path, "/")] = k
				actions["resume"]++
				return 2, k
			}
		}
		actions["send"]++
		return 1, 0
	})
	t.Conn.CloseWrite()
	t.WaitDone(xfer.TransferWatchdog)
	for k, v := range actions {
		c.Count("download_action_"+k, v)
	}
	if perr != nil {
		c.Fail("C10/download/stream-desynchronised", "folder download of %d items (announced %d): the reference client lost the stream after %d items: %v", len(want), announced, len(items), perr)
		return false
	}
	if announced != len(items) {
		c.Fail("C10/download/item-count", "reply announces %d items, the server sent %d item headers (tree has %d visible items)", announced, len(items), len(want))
		return false
	}
	if len(items) != len(want) {
		var got []string
		for _, it := range items {
			got = append(got, joinPath(it.Path))
		}
		c.Fail("C10/download/items", "server sent %d items %v; depth-first walk of visible names has %d", len(items), got, len(want))
		return false
	}
	for i, it := range items {
		w := want[i]
		if joinPath(it.Path) != strings.Join(w.path, "/") || it.IsFolder != w.n.dir {
			c.Fail("C10/download/item-order", "item %d is %q (folder=%v), depth-first order expects %q (folder=%v)", i, joinPath(it.Path), it.IsFolder, strings.Join(w.path, "/"), w.n.dir)
			return false
		}
		if w.n.dir || it.Action == 3 {
			if it.Payload != nil {
				c.Fail("C10/download/skip-ignored", "item %q was skipped but the server sent %d bytes", joinPath(it.Path), len(it.Payload))
				return false
			}
			continue
		}
		k := 0
		if it.Action == 2 {
			k = offsets[strings.Join(w.path, "/")]
		}
		hdr, err := rc.ParseFlatHeader(it.Payload)
		if err != nil {
			c.Fail("C10/download/file-header", "item %q (action %d offset %d): %v", joinPath(it.Path), it.Action, k, err)
			return false
		}
		body := it.Payload[hdr.HeaderLen:]
		if !bytes.Equal(body, w.n.data[k:]) {
			c.Fail("C10/download/file-bytes", "item %q (%d bytes, action %d, offset %d): size prefix %d = header %d + %d payload bytes; expected exactly the %d bytes from the offset (equal prefix of the whole file: %v)",
				joinPath(it.Path), len(w.n.data), it.Action, k, it.Announced, hdr.HeaderLen, len(body), len(w.n.data)-k, bytes.HasPrefix(w.n.data, body))
			return false
		}
		c.Count("files_downloaded", 1)
	}
	if rest := t.Conn.Unread(); len(rest) > 0 {
		c.Fail("C10/download/trailing-bytes", "%d bytes follow the last item", len(rest))
		return false
	}
	return true
}

func snapshotTree(dir string) map[string]string {
	m := map[string]string{}
	filepath.Walk(dir, func(p string, info os.FileInfo, err error) error {
		if err != nil || p == dir {
			return nil
		}
		rel, _ := filepath.Rel(dir, p)
		if info.IsDir() {
			m[rel] = "dir"
		} else {
			b, _ := os.ReadFile(p)
			m[rel] = fmt.Sprintf("file:%d:%x", len(b), fixtureHash(b))
		}
		return nil
	})
	return m
}

func fixtureHash(b []byte) uint64 {
	h := uint64(1469598103934665603)
	for _, c := range b {
		h ^= uint64(c)
		h *= 1099511628211
	}
	return h
}

func modelTree(ns []*node, prefix string, m map[string]string) {
	for _, n := range ns {
		p := filepath.Join(prefix, n.name)
		if n.dir {
			m[p] = "dir"
			modelTree(n.kids, p, m)
		} else {
			m[p] = fmt.Sprintf("file:%d:%x", len(n.data), fixtureHash(n.data))
		}
	}
}

func upload(c *core.Case, srv *fixture.Server, cl *refclient.Client, target string, tree []*node, prefill bool) bool {
	r := c.R
	all := walk(tree, nil, false)
	dst := filepath.Join(srv.FileRoot, "Uploads", target)
	expect := map[string]int{}  // path -> expected action
	partial := map[string]int{} // path -> partial size
	if prefill {
		for _, f := range all {
			if f.n.dir {
				continue
			}
			p := filepath.Join(append([]string{dst}, f.path...)...)
			switch r.Intn(4) {
			case 0:
				os.MkdirAll(filepath.Dir(p), 0755)
				os.WriteFile(p, f.n.data, 0644)
				expect[strings.Join(f.path, "/")] = 3
			case 1:
				if len(f.n.data) > 0 {
					k := r.Intn(len(f.n.data))
					os.MkdirAll(filepath.Dir(p), 0755)
					os.WriteFile(p+".incomplete", f.n.data[:k], 0644)
					expect[strings.Join(f.path, "/")] = 2
					partial[strings.Join(f.path, "/")] = k
				}
			}
		}
	}
	total := 0
	var items []xfer.UpItem
	for _, f := range all {
		var pb [][]byte
		for _, s := range f.path {
			pb = append(pb, []byte(s))
		}
		items = append(items, xfer.UpItem{IsFolder: f.n.dir, Path: pb, Data: f.n.data})
		total += len(f.n.data)
	}
	cnt := rc.U16(len(items))
	if r.Chance(1, 4) {
		cnt = rc.U32(len(items)) // the item count as a 4-byte integer, which the protocol allows as well
		c.Count("item_count_as_4_bytes", 1)
	}
	rep, ok := cl.Call(213, rc.FS(201, target), rc.F(202, rc.PathS("Uploads")), rc.F(108, rc.U32(total)), rc.F(220, cnt))
	if !ok || rep.Err != 0 {
		c.Fail("C10/upload/request-refused", "folder upload request refused: %v", rep)
		return false
	}
	ref, _ := rep.Get(107)
	res, t, perr := xfer.FolderUpload(srv, "10.10.0.1:3", ref, items)
	t.WaitDone(xfer.TransferWatchdog)
	if perr != nil {
		c.Fail("C10/upload/protocol", "folder upload of %d items: %v (handler error: %v)", len(items), perr, t.Err)
		return false
	}
	for i, it := range res {
		if it.IsFolder {
			continue
		}
		key := strings.Join(all[i].path, "/")
		want := 1
		if e, ok := expect[key]; ok {
			want = e
		}
		if it.Action != want {
			c.Fail("C10/upload/action", "item %q: server chose action %d, expected %d (1 send, 2 resume a partial, 3 skip a complete file)", key, it.Action, want)
			return false
		}
		if want == 2 && it.Offset != partial[key] {
			c.Fail("C10/upload/resume-offset", "item %q: server asks to resume at %d, the partial has %d bytes", key, it.Offset, partial[key])
			return false
		}
		c.Count(fmt.Sprintf("upload_action_%d", it.Action), 1)
	}
	got := snapshotTree(dst)
	want := map[string]string{}
	modelTree(tree, "", want)
	var diff []string
	for k, v := range want {
		if got[k] != v {
			diff = append(diff, fmt.Sprintf("%s: streamed %s, on disk %q", k, v, got[k]))
		}
	}
	for k, v := range got {
		if _, ok := want[k]; !ok {
			diff = append(diff, fmt.Sprintf("%s: on disk %s, never streamed", k, v))
		}
	}
	sort.Strings(diff)
	if len(diff) > 0 {
		if len(diff) > 6 {
			diff = diff[:6]
		}
		c.Fail("C10/upload/tree-differs", "after a folder upload of %d items the resulting tree differs from the streamed tree: %v", len(items), diff)
		return false
	}
	return true
}

func runCase(c *core.Case) {
	r := c.R
	budget := 4 + r.Intn(30)
	tree := genTree(r, 1+r.Intn(4), &budget)
	for len(walk(tree, nil, true)) < 1 {
		b := 10
		tree = genTree(r, 2, &b)
	}
	mode := []string{"download", "download-script", "upload", "upload-prefilled", "roundtrip", "upload-cut-retry", "download-commented", "download-alias", "download-twice", "upload-into-renamed"}[c.Index%10]
	folder := "Folder " + fmt.Sprint(r.Intn(100))
	var parent []string
	if r.Bool() {
		parent = []string{"outer"}
	}
	srv, err := fixture.New(fixture.Options{Files: func(root string) {
		os.MkdirAll(filepath.Join(root, "Uploads"), 0755)
		if strings.HasPrefix(mode, "download") {
			writeTree(filepath.Join(append(append([]string{root}, parent...), folder)...), tree)
		}
	}})
	if err != nil {
		c.Unsure("fixture: %v", err)
		return
	}
	defer srv.Close()
	cl, err := refclient.LoginAs(srv, "10.10.0.1:1", "admin", "", "Folders")
	if err != nil {
		c.Unsure("login: %v", err)
		return
	}
	n := len(walk(tree, nil, false))
	class := ""
	if n >= 3 {
		class = fmt.Sprintf("%s/items%d", mode, min(n/5, 6))
	}
	c.Describe(class, map[string]any{"mode": mode, "items": n, "visible_items": len(walk(tree, nil, true))})
	switch mode {
	case "download":
		download(c, srv, cl, folder, parent, tree, false)
	case "download-script":
		download(c, srv, cl, folder, parent, tree, true)
	case "upload-into-renamed":
		// a folder upload into Uploads/Parent is granted; before its transfer connection arrives another session renames
		// Parent. The rename was answered with success, so "Parent" must stay gone - the upload fails, or at least
		// creates nothing under the old name.
		os.MkdirAll(filepath.Join(srv.FileRoot, "Uploads", "Parent"), 0755)
		all := walk(tree, nil, false)
		var items []xfer.UpItem
		total := 0
		for _, f := range all {
			var pb [][]byte
			for _, s := range f.path {
				pb = append(pb, []byte(s))
			}
			items = append(items, xfer.UpItem{IsFolder: f.n.dir, Path: pb, Data: f.n.data})
			total += len(f.n.data)
		}
		rep, ok := cl.Call(213, rc.FS(201, "Incoming"), rc.F(202, rc.PathS("Uploads", "Parent")), rc.F(108, rc.U32(total)), rc.F(220, rc.U16(len(items))))
		if !ok || rep.Err != 0 {
			c.Unsure("folder upload request refused: %v", rep)
			return
		}
		ref, _ := rep.Get(107)
		other, err := refclient.LoginAs(srv, "10.10.0.2:1", "admin", "", "Other")
		if err != nil {
			c.Unsure("login: %v", err)
			return
		}
		if rep, ok := other.Call(207, rc.FS(201, "Parent"), rc.F(202, rc.PathS("Uploads")), rc.FS(211, "Parent renamed")); !ok || rep.Err != 0 {
			c.Unsure("rename refused: %v", rep)
			return
		}
		_, t, _ := xfer.FolderUpload(srv, "10.10.0.1:3", ref, items)
		t.WaitDone(xfer.TransferWatchdog)
		c.Count("uploads_into_a_renamed_folder", 1)
		if _, err := os.Lstat(filepath.Join(srv.FileRoot, "Uploads", "Parent")); err == nil {
			c.Fail("C10/upload-into-renamed/old-name-is-back", "a folder upload into Uploads/Parent was granted, then another session renamed Parent (answered with success), then the transfer ran: the folder 'Parent' exists again (holding %v)", snapshotTree(filepath.Join(srv.FileRoot, "Uploads", "Parent")))
		}
	case "download-twice":
		// between two downloads of the same folder another session changes something two or more levels down
		if !download(c, srv, cl, folder, parent, tree, false) {
			break
		}
		var dirs []flat
		for _, f := range walk(tree, nil, true) {
			hiddenAbove := false
			for _, seg := range f.path {
				if strings.HasPrefix(seg, ".") {
					hiddenAbove = true
				}
			}
			if f.n.dir && !hiddenAbove && isASCII(strings.Join(f.path, "")) {
				dirs = append(dirs, f)
			}
		}
		if len(dirs) == 0 {
			break
		}
		d := dirs[len(dirs)-1] // the deepest / last sub-folder
		other, err := refclient.LoginAs(srv, "10.10.0.2:1", "admin", "", "Other")
		if err != nil {
			c.Unsure("login: %v", err)
			return
		}
		added := "zz-added-" + fmt.Sprint(r.Intn(1000))
		at := append(append(append([]string{}, parent...), folder), d.path...)
		if rep, ok := other.Call(205, rc.FS(201, added), rc.F(202, rc.PathS(at...))); !ok || rep.Err != 0 {
			c.Unsure("new folder refused: %v", rep)
			return
		}
		d.n.kids = append(d.n.kids, &node{name: added, dir: true})
		sort.Slice(d.n.kids, func(i, j int) bool { return d.n.kids[i].name < d.n.kids[j].name })
		c.Count("second_downloads_after_a_change_below", 1)
		download(c, srv, cl, folder, parent, tree, false)
	case "download-alias":
		// the requested folder is an alias (made through the protocol) of the real folder
		afs := []rc.Field{rc.FS(201, folder), rc.F(212, rc.PathS("Uploads"))}
		if len(parent) > 0 {
			afs = append(afs, rc.F(202, rc.PathS(parent...)))
		}
		if rep, ok := cl.Call(209, afs...); !ok || rep.Err != 0 {
			c.Unsure("make-alias refused: %v", rep)
			return
		}
		download(c, srv, cl, folder, []string{"Uploads"}, tree, false)
	case "download-commented":
		// somebody has set comments on some of the files (through the protocol, which stores them in hidden side
		// files next to the files); the folder must download exactly as without them
		base := append(append([]string{}, parent...), folder)
		for _, f := range walk(tree, nil, true) {
			if f.n.dir || !r.Bool() {
				continue
			}
			hiddenAbove := false
			for _, seg := range f.path[:len(f.path)-1] {
				if strings.HasPrefix(seg, ".") {
					hiddenAbove = true
				}
			}
			if hiddenAbove || !isASCII(strings.Join(f.path, "")) {
				continue // the file requests convert names between Mac-Roman and UTF-8 (C11's subject); raw high bytes on disk are not addressable through them
			}
			dir := append(append([]string{}, base...), f.path[:len(f.path)-1]...)
			rep, ok := cl.Call(207, rc.FS(201, f.path[len(f.path)-1]), rc.F(202, rc.PathS(dir...)), rc.FS(210, "note "+fmt.Sprint(r.Intn(1000))))
			if !ok || rep.Err != 0 {
				c.Unsure("set-comment refused: %v", rep)
				return
			}
			c.Count("files_with_comment", 1)
		}
		download(c, srv, cl, folder, parent, tree, r.Bool())
	case "upload":
		upload(c, srv, cl, "Target", tree, false)
	case "upload-prefilled":
		upload(c, srv, cl, "Target", tree, true)
	case "upload-cut-retry":
		uploadCutRetry(c, srv, cl, tree)
	case "roundtrip":
		if upload(c, srv, cl, "Round", tree, false) {
			download(c, srv, cl, "Round", []string{"Uploads"}, tree, false)
		}
	}
	c.Count("trees", 1)
	c.Count("tree_items", n)
}

// uploadCutRetry cuts the connection inside the data of one file item, checks that the file did not appear under
// its final name, then uploads the whole tree again: the server must ask to resume exactly that file and the
// resulting tree must equal the streamed tree.
func uploadCutRetry(c *core.Case, srv *fixture.Server, cl *refclient.Client, tree []*node) {
	r := c.R
	all := walk(tree, nil, false)
	var files []int
	for i, f := range all {
		if !f.n.dir && len(f.n.data) >= 2 {
			files = append(files, i)
		}
	}
	if len(files) == 0 {
		upload(c, srv, cl, "Cut", tree, false)
		return
	}
	victim := core.Pick(r, files)
	k := 1 + r.Intn(len(all[victim].n.data)-1)
	dst := filepath.Join(srv.FileRoot, "Uploads", "Cut")
	mk := func() ([]xfer.UpItem, int) {
		var items []xfer.UpItem
		total := 0
		for _, f := range all {
			var pb [][]byte
			for _, s := range f.path {
				pb = append(pb, []byte(s))
			}
			items = append(items, xfer.UpItem{IsFolder: f.n.dir, Path: pb, Data: f.n.data})
			total += len(f.n.data)
		}
		return items, total
	}
	items, total := mk()
	items[victim].CutAfter = k
	rep, ok := cl.Call(213, rc.FS(201, "Cut"), rc.F(202, rc.PathS("Uploads")), rc.F(108, rc.U32(total)), rc.F(220, rc.U16(len(items))))
	if !ok || rep.Err != 0 {
		c.Fail("C10/upload/request-refused", "folder upload request refused: %v", rep)
		return
	}
	ref, _ := rep.Get(107)
	_, t, err := xfer.FolderUpload(srv, "10.10.0.1:4", ref, items)
	t.WaitDone(xfer.TransferWatchdog)
	if err != xfer.ErrCut {
		c.Fail("C10/upload/protocol", "folder upload before the planned cut: %v", err)
		return
	}
	c.Count("folder_upload_cuts", 1)
	vp := filepath.Join(append([]string{dst}, all[victim].path...)...)
	if b, err := os.ReadFile(vp); err == nil {
		c.Fail("C10/upload-cut/final-name-present", "folder upload: the connection was cut after %d of %d data bytes of item %q, but the file exists under its final name with %d bytes", k, len(all[victim].n.data), strings.Join(all[victim].path, "/"), len(b))
		return
	}
	if b, _ := os.ReadFile(vp + ".incomplete"); !bytes.Equal(b, all[victim].n.data[:k]) {
		c.Fail("C10/upload-cut/partial-differs", "folder upload: after a cut at %d data bytes the partial of %q holds %d bytes", k, strings.Join(all[victim].path, "/"), len(b))
		return
	}
	// retry the whole tree
	items, total = mk()
	rep, ok = cl.Call(213, rc.FS(201, "Cut"), rc.F(202, rc.PathS("Uploads")), rc.F(108, rc.U32(total)), rc.F(220, rc.U16(len(items))))
	if !ok || rep.Err != 0 {
		c.Fail("C10/upload/request-refused", "folder upload retry refused: %v", rep)
		return
	}
	ref, _ = rep.Get(107)
	res, t2, err := xfer.FolderUpload(srv, "10.10.0.1:5", ref, items)
	t2.WaitDone(xfer.TransferWatchdog)
	if err != nil {
		c.Fail("C10/upload/protocol", "folder upload retry: %v", err)
		return
	}
	for i, it := range res {
		if it.IsFolder {
			continue
		}
		want := 3 // already complete
		if i == victim {
			want = 2
		} else if i > victim {
			want = 1
		}
		if it.Action != want {
			c.Fail("C10/upload-retry/action", "retry after a cut: item %q got action %d, expected %d (victim index %d, this item %d)", strings.Join(all[i].path, "/"), it.Action, want, victim, i)
			return
		}
		if i == victim && it.Offset != k {
			c.Fail("C10/upload-retry/resume-offset", "retry: resume offset %d, the partial holds %d bytes", it.Offset, k)
			return
		}
	}
	got := snapshotTree(dst)
	want := map[string]string{}
	modelTree(tree, "", want)
	for p, v := range want {
		if got[p] != v {
			c.Fail("C10/upload/tree-differs", "after cut and retry %q is %q on disk, streamed %s", p, got[p], v)
			return
		}
	}
	for p := range got {
		if _, ok := want[p]; !ok {
			c.Fail("C10/upload/tree-differs", "after cut and retry %q exists on disk but was never streamed", p)
			return
		}
	}
}

func isASCII(s string) bool {
	for i := 0; i < len(s); i++ {
		if s[i] >= 0x80 {
			return false
		}
	}
	return true
}
