// Package c11: file views agree and file operations carry the whole file.
package c11

import (
	"bytes"
	"encoding/json"
	"fmt"
	"os"
	"path/filepath"
	"sort"
	"strings"
	"time"

	"verifharness/internal/core"
	"verifharness/internal/fixture"
	"verifharness/internal/refclient"
	rc "verifharness/internal/refcodec"
	"verifharness/internal/transport"
	"verifharness/internal/xfer"
)

func init() {
	core.Register(&core.Simple{
		Id: "C11", Lvl: "exploration", Quick: 220, Thorough: 6000, PerBatch: 55, Width: 55, Timeout: 2400,
		RuleText: "each case is a history of 20-40 file-management requests through the real connection loop on a generated tree (names over ASCII and Mac-Roman high bytes incl. names that merely contain '.incomplete', spaces, 1..60 bytes; not starting with '.' or '@'): rename, move, delete, new folder (also onto an existing name), alias, set-comment on files and folders (an eighth of the comments 4-9 KB long), upload started and cut (partial file), move/rename attempts on a partial by its listed name, and moves of a file into a folder where a folder of the same name is in the way (nothing may change); destination names never collide. In a quarter of the cases operator-configured ignore patterns are in force and matching files lie in every folder (never listed, never counted). After every step a reference namespace model is compared with: the file list of every folder (exactly the model's entries, partials under their final name, folder item counts, sizes), get-info and the download reply of every complete file (size and type agree with the list and with the bytes on disk; comment), and the directory contents (side files .info_/.rsrc_/.incomplete travel or vanish with their file, no orphans). distinct = multiset of operation kinds; non-trivial = history has a rename/move/delete of a file that owns a side file or a partial",
		Case:     runCase,
		Extra: func(tier string, seed int64) []core.Batch {
			sizes := []int{33000}
			if tier == "thorough" {
				sizes = []int{257, 32767, 32768, 40000, 65535}
			}
			a, _ := json.Marshal(map[string][]int{"sizes": sizes})
			return []core.Batch{{Name: "big-folder", Args: a, Timeout: 1800}}
		},
		RunExtra: runBigFolder,
	})
}

// runBigFolder: a folder with tens of thousands of entries (still within what one reply's 16-bit field count can
// announce) must be listed completely, every entry once.
func runBigFolder(b core.Batch, em *core.Emitter) {
	var a struct {
		Sizes []int `json:"sizes"`
	}
	json.Unmarshal(b.Args, &a)
	for _, n := range a.Sizes {
		id := fmt.Sprintf("C11/big-folder/%d", n)
		core.SafeCase(em, id, func() {
			em.Begin(id, nil)
			srv, err := fixture.New(fixture.Options{Files: func(root string) {
				os.MkdirAll(filepath.Join(root, "big"), 0755)
				for i := 0; i < n; i++ {
					os.WriteFile(filepath.Join(root, "big", fmt.Sprintf("f%05d", i)), nil, 0644)
				}
			}})
			if err != nil {
				em.Emit(core.Result{Case: id, Verdict: core.Inconclusive, Msg: err.Error()})
				return
			}
			defer srv.Close()
			cl, err := refclient.LoginAs(srv, "10.11.9.1:1", "admin", "", "Lister")
			if err != nil {
				em.Emit(core.Result{Case: id, Verdict: core.Inconclusive, Msg: err.Error()})
				return
			}
			obs := map[string]int{"entries_in_the_folder": n}
			rep, ok := cl.Call(200, rc.F(202, rc.PathS("big")))
			if !ok || rep.Err != 0 {
				why := cl.LastWhy
				v := core.Violated
				if strings.HasPrefix(why, "watchdog") {
					v = core.Inconclusive
				}
				em.Emit(core.Result{Case: id, Class: "big-folder", Verdict: v, Key: "C11/big-folder/list-failed", Msg: fmt.Sprintf("file list of a folder with %d entries failed: %v (%s)", n, rep, why), Obs: obs})
				return
			}
			seen := map[string]bool{}
			for _, d := range rep.GetAll(200) {
				fe, err := rc.DecodeFileEntry(d)
				if err != nil {
					em.Emit(core.Result{Case: id, Class: "big-folder", Verdict: core.Violated, Key: "C11/big-folder/unparseable", Msg: fmt.Sprintf("folder with %d entries: list record does not decode: %v", n, err), Obs: obs})
					return
				}
				seen[string(fe.Name)] = true
			}
			obs["entries_listed"] = len(seen)
			missing := 0
			first := ""
			for i := 0; i < n; i++ {
				if nm := fmt.Sprintf("f%05d", i); !seen[nm] {
					if missing == 0 {
						first = nm
					}
					missing++
				}
			}
			if missing > 0 || len(seen) != n {
				em.Emit(core.Result{Case: id, Class: "big-folder", Verdict: core.Violated, Key: "C11/big-folder/list-incomplete", Msg: fmt.Sprintf("folder with %d entries: the list shows %d distinct names, %d entries are missing (first: %s)", n, len(seen), missing, first), Obs: obs})
				return
			}
			// a listed entry can be addressed by its listed name
			last := fmt.Sprintf("f%05d", n-1)
			if info, ok := cl.Call(206, rc.FS(201, last), rc.F(202, rc.PathS("big"))); !ok || info.Err != 0 {
				em.Emit(core.Result{Case: id, Class: "big-folder", Verdict: core.Violated, Key: "C11/big-folder/info-failed", Msg: fmt.Sprintf("get-info on listed entry %s failed: %v", last, info), Obs: obs})
				return
			}
			em.Emit(core.Result{Case: id, Class: fmt.Sprintf("big-folder/%d", n), Verdict: core.Held, Obs: obs, Sample: map[string]any{"entries": n, "listed": len(seen)}})
		})
	}
}

type ent struct {
	name    []byte // as the client sees it (Mac-Roman)
	dir     bool
	alias   *ent
	data    []byte
	comment []byte
	partial bool
	kids    []*ent
	parent  *ent
}

type world struct {
	c        *core.Case
	srv      *fixture.Server
	cl       *refclient.Client
	root     *ent
	log      []string
	kinds    map[string]int
	step     int
	rich     bool
	nPartial int
}

func (w *world) hist() string {
	s := strings.Join(w.log, "\n")
	if len(s) > 5000 {
		s = "…" + s[len(s)-5000:]
	}
	return s
}

func (e *ent) path() [][]byte { // path of the folder e (items from the root)
	var p [][]byte
	for x := e; x.parent != nil; x = x.parent {
		p = append([][]byte{x.name}, p...)
	}
	return p
}

func (e *ent) disk(root string) string {
	parts := []string{root}
	for _, it := range e.path() {
		parts = append(parts, xfer.MacToUTF8(it))
	}
	return filepath.Join(parts...)
}

func (e *ent) child(name []byte) *ent {
	for _, k := range e.kids {
		if bytes.Equal(k.name, name) {
			return k
		}
	}
	return nil
}

func (e *ent) remove(k *ent) {
	for i, x := range e.kids {
		if x == k {
			e.kids = append(e.kids[:i], e.kids[i+1:]...)
			return
		}
	}
}

func (w *world) folders() []*ent {
	var out []*ent
	var walk func(e *ent)
	walk = func(e *ent) {
		out = append(out, e)
		for _, k := range e.kids {
			if k.dir {
				walk(k)
			}
		}
	}
	walk(w.root)
	return out
}

func (w *world) all(pred func(*ent) bool) []*ent {
	var out []*ent
	for _, f := range w.folders() {
		for _, k := range f.kids {
			if pred(k) {
				out = append(out, k)
			}
		}
	}
	return out
}

func (w *world) genName(parent *ent) []byte {
	r := w.c.R
	for {
		var b []byte
		switch r.Intn(7) {
		case 0:
			b = append([]byte("notes"), []byte(core.Pick(r, []string{".incomplete.txt", ".incomplete.bak", " incomplete", ".incompleteX"}))...)
			b = append([]byte(fmt.Sprint(r.Intn(90))), b...)
		case 1:
			b = r.Printable(2 + r.Intn(10))
			for i := range b {
				if r.Chance(1, 3) {
					b[i] = byte(0x80 + r.Intn(0x80))
				}
			}
		case 2:
			b = append(r.Printable(30+r.Intn(30)), []byte(".txt")...)
		default:
			b = append(r.Printable(1+r.Intn(10)), []byte(core.Pick(r, []string{"", ".txt", ".sit", ".jpg", ".zip", " copy"}))...)
		}
		for i := range b {
			if b[i] == '/' || b[i] == 0 {
				b[i] = '-'
			}
		}
		if b[0] == '.' || b[0] == '@' || b[0] == ' ' {
			b[0] = 'n'
		}
		b = bytes.TrimRight(b, " ")
		if bytes.HasSuffix(b, []byte(".incomplete")) || len(b) == 0 {
			continue
		}
		if _, ok := xfer.UTF8ToMac(xfer.MacToUTF8(b)); !ok {
			continue
		}
		// unique inside the folder, also against names differing only by an embedded ".incomplete" and by case
		clash := false
		norm := func(x []byte) string {
			return strings.ToLower(strings.ReplaceAll(xfer.MacToUTF8(x), ".incomplete", ""))
		}
		for _, k := range parent.kids {
			if norm(k.name) == norm(b) {
				clash = true
			}
		}
		if !clash {
			return b
		}
	}
}

func (w *world) fields(e *ent) []rc.Field {
	fs := []rc.Field{rc.F(201, e.name)}
	if p := e.parent.path(); len(p) > 0 {
		fs = append(fs, rc.F(202, rc.Path(p...)))
	}
	return fs
}

func (w *world) doStep() bool {
	r := w.c.R
	kind := core.Pick(r, []string{"rename", "rename", "move", "move", "delete", "delete", "new-folder", "new-folder-existing", "alias", "comment", "comment", "partial-upload", "move-partial", "rename-partial", "move-blocked"})
	w.kinds[kind]++
	// an alias is an absolute link: renaming, moving or deleting its target, or any folder above the target, leaves
	// it dangling (the statement does not say what a dangling alias looks like), so such entries are left alone
	isAliased := func(e *ent) bool {
		for _, a := range w.all(func(x *ent) bool { return x.alias != nil }) {
			for t := a.alias; t != nil; t = t.parent {
				if t == e {
					return true
				}
			}
		}
		return false
	}
	movable := w.all(func(e *ent) bool { return !e.partial && !isAliased(e) && !(e.dir && len(e.comment) > 0) })
	switch kind {
	case "rename":
		if len(movable) == 0 {
			return true
		}
		e := core.Pick(r, movable)
		nn := w.genName(e.parent)
		fs := append(w.fields(e), rc.F(211, nn))
		var both []byte
		if !e.dir && e.alias == nil && !e.partial && r.Chance(1, 3) {
			// the same request also sets the comment (both fields are optional parts of one set-file-info request)
			both = []byte("renamed and commented " + string(r.Printable(1+r.Intn(40))))
			fs = append(fs, rc.F(210, both))
			w.kinds["rename-with-comment"]++
		}
		rep, ok := w.cl.Call(207, fs...)
		w.log = append(w.log, fmt.Sprintf("rename %q -> %q in %q (dir=%v comment=%d, new comment in the same request: %d bytes) -> %v", e.name, nn, e.parent.path(), e.dir, len(e.comment), len(both), rep))
		if both != nil && ok && rep.Err == 0 {
			e.comment = both
		}
		if !ok || rep.Err != 0 {
			w.c.Fail("C11/rename/refused", "step %d: rename of a listed entry by its listed name was refused or unanswered: %v\nhistory:\n%s", w.step, rep, w.hist())
			return false
		}
		if len(e.comment) > 0 {
			w.rich = true
		}
		e.name = nn
	case "move":
		if len(movable) == 0 {
			return true
		}
		e := core.Pick(r, movable)
		var dests []*ent
		for _, f := range w.folders() {
			inside := false
			for x := f; x != nil; x = x.parent {
				if x == e {
					inside = true
				}
			}
			if !inside && f != e.parent && f.child(e.name) == nil {
				dests = append(dests, f)
			}
		}
		if len(dests) == 0 {
			return true
		}
		d := core.Pick(r, dests)
		fs := append(w.fields(e), rc.F(212, rc.Path(d.path()...)))
		rep, ok := w.cl.Call(208, fs...)
		w.log = append(w.log, fmt.Sprintf("move %q from %q to %q (dir=%v comment=%d) -> %v", e.name, e.parent.path(), d.path(), e.dir, len(e.comment), rep))
		if !ok || rep.Err != 0 {
			w.c.Fail("C11/move/refused", "step %d: move refused or unanswered: %v\nhistory:\n%s", w.step, rep, w.hist())
			return false
		}
		if len(e.comment) > 0 {
			w.rich = true
		}
		e.parent.remove(e)
		e.parent = d
		d.kids = append(d.kids, e)
	case "delete":
		cands := w.all(func(e *ent) bool { return !isAliased(e) })
		if len(cands) == 0 {
			return true
		}
		e := core.Pick(r, cands)
		rep, ok := w.cl.Call(204, w.fields(e)...)
		w.log = append(w.log, fmt.Sprintf("delete %q in %q (dir=%v partial=%v comment=%d) -> %v", e.name, e.parent.path(), e.dir, e.partial, len(e.comment), rep))
		if !ok || rep.Err != 0 {
			w.c.Fail("C11/delete/refused", "step %d: delete refused or unanswered: %v\nhistory:\n%s", w.step, rep, w.hist())
			return false
		}
		if len(e.comment) > 0 || e.partial {
			w.rich = true
		}
		e.parent.remove(e)
	case "move-partial", "rename-partial":
		// a partial upload addressed by its listed (final) name: it may stay where it is or travel as a partial,
		// but it must remain a partial upload with exactly its bytes
		parts := w.all(func(e *ent) bool { return e.partial })
		if len(parts) == 0 {
			return true
		}
		e := core.Pick(r, parts)
		var dests []*ent
		for _, f := range w.folders() {
			if f != e.parent && f.child(e.name) == nil {
				dests = append(dests, f)
			}
		}
		if len(dests) == 0 {
			return true
		}
		d := core.Pick(r, dests)
		oldName := e.name
		newName := e.name
		if kind == "move-partial" {
			rep, _ := w.cl.Call(208, append(w.fields(e), rc.F(212, rc.Path(d.path()...)))...)
			w.log = append(w.log, fmt.Sprintf("move of the partial upload %q from %q to %q -> %v", e.name, e.parent.path(), d.path(), rep))
		} else {
			d = e.parent
			newName = w.genName(e.parent)
			rep, _ := w.cl.Call(207, append(w.fields(e), rc.F(211, newName))...)
			w.log = append(w.log, fmt.Sprintf("rename of the partial upload %q to %q in %q -> %v", e.name, newName, e.parent.path(), rep))
		}
		w.rich = true
		// did it travel (as a partial)?
		if _, err := os.Stat(filepath.Join(d.disk(w.srv.FileRoot), xfer.MacToUTF8(newName)+".incomplete")); err == nil && (d != e.parent || !bytes.Equal(newName, oldName)) {
			e.parent.remove(e)
			e.parent = d
			e.name = newName
			d.kids = append(d.kids, e)
		}
	case "new-folder":
		p := core.Pick(r, w.folders())
		nn := w.genName(p)
		fs := []rc.Field{rc.F(201, nn)}
		if pp := p.path(); len(pp) > 0 {
			fs = append(fs, rc.F(202, rc.Path(pp...)))
		}
		rep, ok := w.cl.Call(205, fs...)
		w.log = append(w.log, fmt.Sprintf("new folder %q in %q -> %v", nn, p.path(), rep))
		if !ok || rep.Err != 0 {
			w.c.Fail("C11/new-folder/refused", "step %d: new folder refused: %v\nhistory:\n%s", w.step, rep, w.hist())
			return false
		}
		p.kids = append(p.kids, &ent{name: nn, dir: true, parent: p})
	case "move-blocked":
		// a file (preferably one that owns a comment) is moved into a folder where a FOLDER of the same name is in the
		// way: the file system refuses that, so nothing may change - in particular the file keeps its side files
		files := w.all(func(e *ent) bool { return !e.dir && !e.partial && e.alias == nil && !isAliased(e) })
		if len(files) == 0 {
			return true
		}
		e := core.Pick(r, files)
		for _, f := range files {
			if len(f.comment) > 0 && r.Bool() {
				e = f
			}
		}
		var dests []*ent
		for _, f := range w.folders() {
			if f != e.parent && f.child(e.name) == nil && !isAliased(f) {
				dests = append(dests, f)
			}
		}
		if len(dests) == 0 {
			return true
		}
		d := core.Pick(r, dests)
		fs := []rc.Field{rc.F(201, e.name)}
		if pp := d.path(); len(pp) > 0 {
			fs = append(fs, rc.F(202, rc.Path(pp...)))
		}
		if rep, ok := w.cl.Call(205, fs...); !ok || rep.Err != 0 {
			w.c.Fail("C11/new-folder/refused", "step %d: new folder %q in %q refused: %v\nhistory:\n%s", w.step, e.name, d.path(), rep, w.hist())
			return false
		}
		d.kids = append(d.kids, &ent{name: e.name, dir: true, parent: d})
		rep, _ := w.cl.Call(208, append(w.fields(e), rc.F(212, rc.Path(d.path()...)))...)
		w.log = append(w.log, fmt.Sprintf("move %q (comment=%d) from %q into %q where a folder of that name is in the way -> %v", e.name, len(e.comment), e.parent.path(), d.path(), rep))
		if len(e.comment) > 0 {
			w.rich = true
		}
	case "new-folder-existing":
		cands := w.all(func(e *ent) bool { return !e.partial })
		if len(cands) == 0 {
			return true
		}
		e := core.Pick(r, cands)
		rep, ok := w.cl.Call(205, w.fields(e)...)
		w.log = append(w.log, fmt.Sprintf("new folder onto existing %q in %q -> %v", e.name, e.parent.path(), rep))
		if ok && rep.Err == 0 {
			w.c.Fail("C11/new-folder/replaced-existing", "step %d: creating a folder named like the existing entry %q was not refused\nhistory:\n%s", w.step, e.name, w.hist())
			return false
		}
	case "alias":
		files := w.all(func(e *ent) bool { return !e.dir && e.alias == nil && !e.partial })
		if len(files) == 0 {
			return true
		}
		e := core.Pick(r, files)
		var dests []*ent
		for _, f := range w.folders() {
			if f != e.parent && f.child(e.name) == nil {
				dests = append(dests, f)
			}
		}
		if len(dests) == 0 {
			return true
		}
		d := core.Pick(r, dests)
		rep, ok := w.cl.Call(209, append(w.fields(e), rc.F(212, rc.Path(d.path()...)))...)
		w.log = append(w.log, fmt.Sprintf("alias of %q (in %q) in %q -> %v", e.name, e.parent.path(), d.path(), rep))
		if !ok || rep.Err != 0 {
			w.c.Fail("C11/alias/refused", "step %d: alias refused: %v\nhistory:\n%s", w.step, rep, w.hist())
			return false
		}
		d.kids = append(d.kids, &ent{name: e.name, alias: e, parent: d})
	case "comment":
		cands := w.all(func(e *ent) bool { return e.alias == nil && !e.partial })
		if len(cands) == 0 {
			return true
		}
		e := core.Pick(r, cands)
		cm := r.Printable(1 + r.Intn(80))
		if r.Chance(1, 8) {
			cm = r.Printable(4100 + r.Intn(5000)) // a request above 4 KiB whose name and path fields precede the long one
		}
		rep, ok := w.cl.Call(207, append(w.fields(e), rc.F(210, cm))...)
		w.log = append(w.log, fmt.Sprintf("set comment (%d bytes) on %q in %q (dir=%v) -> %v", len(cm), e.name, e.parent.path(), e.dir, rep))
		if !ok || rep.Err != 0 {
			w.c.Fail("C11/comment/refused", "step %d: set-comment refused: %v\nhistory:\n%s", w.step, rep, w.hist())
			return false
		}
		e.comment = cm
	case "partial-upload":
		if w.nPartial >= 2 {
			return true
		}
		w.nPartial++
		p := core.Pick(r, w.folders())
		nn := w.genName(p)
		data := r.Bytes(200 + r.Intn(3000))
		u := xfer.RequestUpload(w.cl, nn, p.path(), len(data), false)
		if !u.OK {
			w.c.Fail("C11/upload/refused", "step %d: upload request refused: %v", w.step, u.Reply)
			return false
		}
		k := 1 + r.Intn(len(data)-1)
		stream := xfer.UploadStream(nn, nil, data, nil)
		t := xfer.Start(w.srv, "10.11.0.1:9", u.Ref, len(data), [][]byte{stream[:xfer.HeaderLen(nn, nil)+k]})
		t.Conn.Fail(transport.ErrInjected)
		select {
		case <-t.Conn.Done:
		case <-time.After(xfer.TransferWatchdog):
			w.c.Unsure("upload handler did not return")
			return false
		}
		w.log = append(w.log, fmt.Sprintf("upload of %q into %q cut after %d of %d bytes", nn, p.path(), k, len(data)))
		p.kids = append(p.kids, &ent{name: nn, data: data[:k], partial: true, parent: p})
	}
	return true
}

func (w *world) check() bool {
	c := w.c
	root := w.srv.FileRoot
	for _, f := range w.folders() {
		var fs []rc.Field
		if p := f.path(); len(p) > 0 {
			fs = append(fs, rc.F(202, rc.Path(p...)))
		}
		rep, ok := w.cl.Call(200, fs...)
		if !ok || rep.Err != 0 {
			c.Fail("C11/list/failed", "after step %d: file list of %q failed: %v\nhistory:\n%s", w.step, f.path(), rep, w.hist())
			return false
		}
		listed := map[string]rc.FileEntry{}
		for _, d := range rep.GetAll(200) {
			fe, err := rc.DecodeFileEntry(d)
			if err != nil {
				c.Fail("C11/list/unparseable", "file list entry: %v", err)
				return false
			}
			if _, dup := listed[string(fe.Name)]; dup {
				c.Fail("C11/list/duplicate", "after step %d: %q listed twice in %q\nhistory:\n%s", w.step, fe.Name, f.path(), w.hist())
				return false
			}
			listed[string(fe.Name)] = fe
		}
		for _, k := range f.kids {
			fe, ok := listed[string(k.name)]
			if !ok {
				var names []string
				for n := range listed {
					names = append(names, fmt.Sprintf("%q", n))
				}
				sort.Strings(names)
				c.Fail("C11/list/missing", "after step %d: entry %q (dir=%v partial=%v alias=%v) of %q is not in the file list under that name; listed: %v\nhistory:\n%s", w.step, k.name, k.dir, k.partial, k.alias != nil, f.path(), names, w.hist())
				return false
			}
			delete(listed, string(k.name))
			target := k
			if k.alias != nil {
				target = k.alias
			}
			if target.dir {
				if string(fe.Type[:]) != "fldr" || int(fe.Size) != len(target.kids) {
					c.Fail("C11/list/folder-entry", "after step %d: folder %q listed with type %q and item count %d, model has %d items\nhistory:\n%s", w.step, k.name, fe.Type, fe.Size, len(target.kids), w.hist())
					return false
				}
				continue
			}
			if int(fe.Size) != len(target.data) {
				c.Fail("C11/list/size", "after step %d: file %q listed with size %d, it has %d bytes\nhistory:\n%s", w.step, k.name, fe.Size, len(target.data), w.hist())
				return false
			}
			if k.partial {
				b, err := os.ReadFile(filepath.Join(f.disk(root), xfer.MacToUTF8(k.name)+".incomplete"))
				if err != nil || !bytes.Equal(b, k.data) {
					c.Fail("C11/disk/partial", "after step %d: the partial upload %q is no longer a partial file with its %d bytes (%v; a complete file of that name exists: %v)\nhistory:\n%s", w.step, k.name, len(k.data), err, fileExists(filepath.Join(f.disk(root), xfer.MacToUTF8(k.name))), w.hist())
					return false
				}
				if fileExists(filepath.Join(f.disk(root), xfer.MacToUTF8(k.name))) {
					c.Fail("C11/disk/partial-published", "after step %d: the partial upload %q also exists under its final name\nhistory:\n%s", w.step, k.name, w.hist())
					return false
				}
				continue
			}
			if k.alias != nil {
				continue
			}
			// a listed complete file is addressable by its listed name: info and download agree with list and disk
			info, ok := w.cl.Call(206, w.fields(k)...)
			if !ok || info.Err != 0 {
				c.Fail("C11/info/failed", "after step %d: get-info on the listed name %q failed: %v\nhistory:\n%s", w.step, k.name, info, w.hist())
				return false
			}
			sz, _ := info.Get(207)
			isz, _ := rc.DecodeIntField(sz)
			ty, _ := info.Get(213)
			nm, _ := info.Get(201)
			cm, _ := info.Get(210)
			st, err := os.Stat(filepath.Join(f.disk(root), xfer.MacToUTF8(k.name)))
			if err != nil || int(st.Size()) != len(k.data) {
				c.Fail("C11/disk/file", "after step %d: file %q on disk: %v, model %d bytes\nhistory:\n%s", w.step, k.name, err, len(k.data), w.hist())
				return false
			}
			if isz != int(fe.Size) || !bytes.Equal(ty, fe.Type[:]) || !bytes.Equal(nm, k.name) {
				c.Fail("C11/info/disagrees-with-list", "after step %d: %q: list says size %d type %q; get-info says size %d type %q name %q\nhistory:\n%s", w.step, k.name, fe.Size, fe.Type, isz, ty, nm, w.hist())
				return false
			}
			if !bytes.Equal(cm, k.comment) {
				c.Fail("C11/info/comment", "after step %d: %q: get-info shows comment %q, model %q (the info fork did not travel with the file?)\nhistory:\n%s", w.step, k.name, cm, k.comment, w.hist())
				return false
			}
			d := xfer.RequestDownload(w.cl, k.name, f.path(), -1, false)
			if !d.OK || d.FileSize != len(k.data) {
				c.Fail("C11/download/disagrees", "after step %d: download request for the listed name %q: ok=%v announces %d bytes, file has %d\nhistory:\n%s", w.step, k.name, d.OK, d.FileSize, len(k.data), w.hist())
				return false
			}
			c.Count("files_cross_checked", 1)
		}
		for n, fe := range listed {
			c.Fail("C11/list/phantom", "after step %d: file list of %q shows %q (type %q size %d) which the model does not contain under that name\nhistory:\n%s", w.step, f.path(), n, fe.Type, fe.Size, w.hist())
			return false
		}
		// directory contents: every side file belongs to an entry of this folder
		ents, _ := os.ReadDir(f.disk(root))
		owner := map[string]*ent{}
		for _, k := range f.kids {
			owner[xfer.MacToUTF8(k.name)] = k
		}
		for _, de := range ents {
			n := de.Name()
			var base string
			switch {
			case strings.HasPrefix(n, ".info_"):
				base = strings.TrimPrefix(n, ".info_")
				if o := owner[base]; o == nil {
					c.Fail("C11/disk/orphan-info-fork", "after step %d: %q in %q belongs to no entry of that folder (left behind by a rename/move/delete?)\nhistory:\n%s", w.step, n, f.path(), w.hist())
					return false
				}
			case strings.HasPrefix(n, ".rsrc_"):
				base = strings.TrimPrefix(n, ".rsrc_")
				if owner[base] == nil {
					c.Fail("C11/disk/orphan-rsrc-fork", "after step %d: %q in %q belongs to no entry\nhistory:\n%s", w.step, n, f.path(), w.hist())
					return false
				}
			case strings.HasSuffix(n, ".incomplete") && (owner[strings.TrimSuffix(n, ".incomplete")] == nil || !owner[strings.TrimSuffix(n, ".incomplete")].partial) && owner[n] == nil:
				c.Fail("C11/disk/orphan-partial", "after step %d: %q in %q belongs to no partial upload\nhistory:\n%s", w.step, n, f.path(), w.hist())
				return false
			}
		}
		for _, k := range f.kids {
			if len(k.comment) > 0 && k.alias == nil {
				if _, err := os.Stat(filepath.Join(f.disk(root), ".info_"+xfer.MacToUTF8(k.name))); err != nil {
					c.Fail("C11/disk/info-fork-lost", "after step %d: %q has a comment but its info fork is not next to it\nhistory:\n%s", w.step, k.name, w.hist())
					return false
				}
			}
		}
		c.Count("listings_checked", 1)
	}
	return true
}

func fileExists(p string) bool { _, err := os.Lstat(p); return err == nil }

func runCase(c *core.Case) {
	r := c.R
	w := &world{c: c, kinds: map[string]int{}, root: &ent{dir: true}}
	// initial tree
	var build func(p *ent, depth int)
	build = func(p *ent, depth int) {
		n := 2 + r.Intn(4)
		for i := 0; i < n; i++ {
			nm := w.genName(p)
			if depth > 0 && r.Chance(1, 3) {
				d := &ent{name: nm, dir: true, parent: p}
				p.kids = append(p.kids, d)
				build(d, depth-1)
			} else {
				p.kids = append(p.kids, &ent{name: nm, data: r.Bytes(r.Intn(2000)), parent: p})
			}
		}
	}
	build(w.root, 2)
	// in a quarter of the cases the operator has configured ignore patterns of his own, and files matching them lie in
	// the folders: they are never listed and never counted
	var ignore []string
	if c.Index%4 == 2 {
		ignore = []string{`^\.`, `\.IGNORED~$`, `^Thumbs\.db$`}
		c.Count("cases_with_configured_ignore_patterns", 1)
	}
	srv, err := fixture.New(fixture.Options{PreserveForks: r.Bool(), IgnoreFiles: ignore, Files: func(root string) {
		var wr func(e *ent)
		wr = func(e *ent) {
			os.MkdirAll(e.disk(root), 0755)
			if ignore != nil {
				os.WriteFile(filepath.Join(e.disk(root), "Thumbs.db"), []byte("x"), 0644)
				os.WriteFile(filepath.Join(e.disk(root), "left over.IGNORED~"), []byte("yy"), 0644)
			}
			for _, k := range e.kids {
				if k.dir {
					wr(k)
				} else {
					os.WriteFile(filepath.Join(e.disk(root), xfer.MacToUTF8(k.name)), k.data, 0644)
				}
			}
		}
		wr(w.root)
	}})
	if err != nil {
		c.Unsure("fixture: %v", err)
		return
	}
	defer srv.Close()
	w.srv = srv
	w.cl, err = refclient.LoginAs(srv, "10.11.0.1:1", "admin", "", "Filer")
	if err != nil {
		c.Unsure("login: %v", err)
		return
	}
	if !w.check() {
		return
	}
	steps := 20 + r.Intn(21)
	for w.step = 1; w.step <= steps; w.step++ {
		if !w.doStep() || !w.check() {
			break
		}
		c.Count("steps", 1)
	}
	var ks []string
	for k := range w.kinds {
		ks = append(ks, k)
	}
	sort.Strings(ks)
	class := ""
	if w.rich {
		class = strings.Join(ks, "+")
	}
	sample := w.log
	if len(sample) > 8 {
		sample = sample[:8]
	}
	c.Describe(class, map[string]any{"steps": w.step - 1, "first_operations": sample})
}
