// Package c12: chat reaches exactly its audience.
package c12

import (
	"encoding/json"
	"fmt"
	"sort"
	"strings"
	"sync"
	"time"

	"verifharness/internal/core"
	"verifharness/internal/fixture"
	"verifharness/internal/refclient"
	rc "verifharness/internal/refcodec"
)

func init() {
	core.Register(&core.Simple{
		Id: "C12", Lvl: "exploration", Quick: 300, Thorough: 10000, PerBatch: 75, Width: 16, Timeout: 1500,
		RuleText: "each case is a history of 25-50 steps over 2-9 clients with random read/send/open-chat/any-name privileges: connect+login (both login flows), invite-new, invite-to, join, leave, leave by a non-member, requests by an outsider on a chat id that does not exist, decline, set-subject, public and private send (plain and emote, messages 0..9000 arbitrary bytes), disconnect; a reference chat model computes per step the required deliveries (chat lines, subject changes, join and leave notices) and the permitted ones (invitation to the invitee, decline line to members); at hook-based quiescence every client's newly received chat transactions (types 106,113,117,118,119) must contain each required delivery exactly once and nothing that is not permitted for it. A race-build stress batch has all members of frozen chats send concurrently with unique message ids, and a churn batch lets members leave and re-join while others send, then checks that those who finally left are out of the audience. distinct = multiset of step kinds; non-trivial = history has a private send after a leave/decline/disconnect or a public send with mixed read privileges",
		Case:     runCase,
		Extra: func(tier string, seed int64) []core.Batch {
			n := 6
			if tier == "thorough" {
				n = 60
			}
			a, _ := json.Marshal(map[string]int{"runs": n})
			return []core.Batch{{Name: "stress", Race: true, Args: a, Timeout: 900}}
		},
		RunExtra: runStress,
	})
}

type mclient struct {
	idx       int
	cl        *refclient.Client
	id        uint16
	name      string
	read      bool
	send      bool
	open      bool
	connected bool
	refuse    bool
}

type mchat struct {
	id      []byte
	members map[int]bool
	subject string
}

type delivery struct {
	to   int
	sig  string
	must bool
}

type world struct {
	ghosts  int
	c                                 *core.Case
	srv                               *fixture.Server
	clients                           []*mclient
	chats                             []*mchat
	log                               []string
	kinds                             map[string]int
	step                              int
	sawPrivAfterLeave, sawMixedPublic bool
	lastLeaver                        map[string]map[int]bool // chat id -> clients that left/declined
}

func sigOf(t rc.Tran) string {
	chat, _ := t.Get(114)
	switch t.Type {
	case 106:
		d, _ := t.Get(101)
		return fmt.Sprintf("106 chat=%x data=%x", chat, d)
	case 113:
		u, _ := t.Get(103)
		return fmt.Sprintf("113 chat=%x from=%x", chat, u)
	case 117:
		u, _ := t.Get(103)
		n, _ := t.Get(102)
		return fmt.Sprintf("117 chat=%x user=%x name=%x", chat, u, n)
	case 118:
		u, _ := t.Get(103)
		return fmt.Sprintf("118 chat=%x user=%x", chat, u)
	case 119:
		s, _ := t.Get(115)
		return fmt.Sprintf("119 chat=%x subject=%x", chat, s)
	}
	return ""
}

// chatLine is the protocol's chat text: "\r%13.13s:  %s" or the emote form, cut to 8192 bytes.
func chatLine(name string, msg []byte, emote bool) []byte {
	var s []byte
	if emote {
		s = append([]byte("\r*** "+name+" "), msg...)
	} else {
		n := name
		if len(n) > 13 {
			n = n[:13]
		}
		s = append([]byte("\r"+strings.Repeat(" ", 13-len(n))+n+":  "), msg...)
	}
	if len(s) > 8192 {
		s = s[:8192]
	}
	return s
}

func (w *world) hist() string {
	s := strings.Join(w.log, "\n")
	if len(s) > 5000 {
		s = "…" + s[len(s)-5000:]
	}
	return s
}

func (w *world) connected() []*mclient {
	var out []*mclient
	for _, m := range w.clients {
		if m.connected {
			out = append(out, m)
		}
	}
	return out
}

func (w *world) genMsg() []byte {
	r := w.c.R
	switch r.Intn(8) {
	case 0:
		return nil
	case 1:
		return r.Bytes(8150 + r.Intn(60)) // around the 8192 limit
	case 2:
		return r.Bytes(9000)
	case 3:
		return r.Bytes(1 + r.Intn(40))
	default:
		return r.Printable(1 + r.Intn(60))
	}
}

// intEnc encodes an option integer in 2 bytes or, in a quarter of the cases, in 4 bytes (both are legal).
func (w *world) intEnc(v int) []byte {
	if w.c.R.Chance(1, 4) {
		w.c.Count("chat_option_as_4_bytes", 1)
		return rc.U32(v)
	}
	return rc.U16(v)
}

func (w *world) connect(m *mclient, oldFlow bool) bool {
	addr := fmt.Sprintf("10.12.0.%d:%d", m.idx+1, 2000+w.step)
	login := fmt.Sprintf("u%d", m.idx)
	var cl *refclient.Client
	var err error
	if oldFlow {
		cl, err = refclient.LoginAs(w.srv, addr, login, "", m.name)
	} else {
		cl, err = refclient.LoginAs(w.srv, addr, login, "", "")
		if err == nil {
			if _, ok := cl.Agreed(m.name, 1, core.Pick(w.c.R, []int{0, 0, 0, 2, 2, 3}), ""); !ok { // some refuse private chat and/or messages
				err = fmt.Errorf("no reply to agreed")
			}
		}
	}
	if err != nil {
		w.c.Unsure("login of client %d: %v", m.idx, err)
		return false
	}
	m.cl, m.connected = cl, true
	// learn the id from the user list, as a client would
	ul, ok := cl.Call(300)
	if !ok {
		w.c.Unsure("user list")
		return false
	}
	us, _ := refclient.UserList(ul)
	known := map[uint16]bool{}
	for _, o := range w.clients {
		if o != m && o.connected {
			known[o.id] = true
		}
	}
	found := false
	for _, u := range us {
		if !known[u.ID] {
			m.id, found = u.ID, true
		}
	}
	if !found {
		w.c.Unsure("own id not found in the user list")
		return false
	}
	return true
}

func (w *world) doStep() ([]delivery, bool) {
	r := w.c.R
	conn := w.connected()
	var exp []delivery
	kind := core.Pick(r, []string{"public", "public", "private", "private", "private", "invite-new", "invite-new", "invite-to", "join", "join", "leave", "stray-leave", "decline", "subject", "disconnect", "connect", "ghost-chat"})
	if len(conn) < 2 {
		kind = "connect"
	}
	var live []*mchat
	for _, ch := range w.chats {
		for i := range ch.members {
			if w.clients[i].connected {
				live = append(live, ch)
				break
			}
		}
	}
	if len(live) == 0 && (kind == "private" || kind == "invite-to" || kind == "join" || kind == "leave" || kind == "stray-leave" || kind == "decline" || kind == "subject") {
		kind = "invite-new"
	}
	w.kinds[kind]++
	switch kind {
	case "connect":
		var off []*mclient
		for _, m := range w.clients {
			if !m.connected {
				off = append(off, m)
			}
		}
		if len(off) == 0 {
			return nil, true
		}
		m := core.Pick(r, off)
		old := r.Bool()
		if !w.connect(m, old) {
			return nil, false
		}
		w.log = append(w.log, fmt.Sprintf("connect client %d (%q, oldflow=%v) -> id %d", m.idx, m.name, old, m.id))
	case "disconnect":
		m := core.Pick(r, conn)
		m.cl.Hangup()
		m.connected = false
		// a user who reconnects is a new user (new id): membership ends with the connection
		for _, ch := range w.chats {
			if ch.members[m.idx] {
				delete(ch.members, m.idx)
				w.note(ch, m.idx)
			}
		}
		w.log = append(w.log, fmt.Sprintf("disconnect client %d", m.idx))
	case "public":
		m := core.Pick(r, conn)
		msg := w.genMsg()
		emote := r.Chance(1, 4)
		fs := []rc.Field{rc.F(101, msg)}
		if emote {
			fs = append(fs, rc.F(109, w.intEnc(1)))
		} else if r.Chance(1, 4) {
			fs = append(fs, rc.F(109, w.intEnc(0)))
		}
		if r.Chance(1, 5) {
			fs = append(fs, rc.F(114, []byte{0, 0, 0, 0})) // some clients send a zero chat id for public chat
		}
		m.cl.Send(105, fs...)
		w.log = append(w.log, fmt.Sprintf("client %d public send len=%d emote=%v (may send: %v)", m.idx, len(msg), emote, m.send))
		if m.send {
			line := chatLine(m.name, msg, emote)
			readers, nonreaders := 0, 0
			for _, o := range conn {
				if o.read {
					exp = append(exp, delivery{o.idx, fmt.Sprintf("106 chat= data=%x", line), true})
					readers++
				} else {
					nonreaders++
				}
			}
			if readers > 0 && nonreaders > 0 {
				w.sawMixedPublic = true
			}
		}
	case "private":
		ch := core.Pick(r, live)
		m := core.Pick(r, conn)
		msg := w.genMsg()
		emote := r.Chance(1, 4)
		fs := []rc.Field{rc.F(114, ch.id), rc.F(101, msg)}
		if emote {
			fs = append(fs, rc.F(109, w.intEnc(1)))
		}
		m.cl.Send(105, fs...)
		w.log = append(w.log, fmt.Sprintf("client %d private send to chat %x len=%d emote=%v (member: %v, may send: %v)", m.idx, ch.id, len(msg), emote, ch.members[m.idx], m.send))
		if m.send {
			line := chatLine(m.name, msg, emote)
			for i := range ch.members {
				if w.clients[i].connected {
					exp = append(exp, delivery{i, fmt.Sprintf("106 chat=%x data=%x", ch.id, line), true})
				}
			}
			if len(w.lastLeaver[string(ch.id)]) > 0 {
				w.sawPrivAfterLeave = true
			}
		}
	case "invite-new":
		m := core.Pick(r, conn)
		t := core.Pick(r, conn)
		rep, ok := m.cl.Call(112, rc.F(103, rc.U16(int(t.id))))
		w.log = append(w.log, fmt.Sprintf("client %d invites client %d to a new chat (may open: %v) -> %v", m.idx, t.idx, m.open, rep))
		if !ok {
			w.c.Fail("C12/invite-new/no-reply", "step %d: no reply to invite-new\nhistory:\n%s", w.step, w.hist())
			return nil, false
		}
		if m.open {
			id, _ := rep.Get(114)
			if rep.Err != 0 || len(id) != 4 {
				w.c.Fail("C12/invite-new/refused", "step %d: invite-new refused for a client holding open-chat: %v", w.step, rep)
				return nil, false
			}
			ch := &mchat{id: id, members: map[int]bool{m.idx: true}}
			w.chats = append(w.chats, ch)
			exp = append(exp, delivery{t.idx, fmt.Sprintf("113 chat=%x from=%x", id, rc.U16(int(m.id))), false})
		} else if rep.Err == 0 {
			w.c.Fail("C12/invite-new/not-refused", "step %d: client without open-chat created a private chat: %v", w.step, rep)
			return nil, false
		}
	case "invite-to":
		ch := core.Pick(r, live)
		var mem []*mclient
		for i := range ch.members {
			if w.clients[i].connected {
				mem = append(mem, w.clients[i])
			}
		}
		m := core.Pick(r, mem)
		t := core.Pick(r, conn)
		rep, _ := m.cl.Call(113, rc.F(103, rc.U16(int(t.id))), rc.F(114, ch.id))
		w.log = append(w.log, fmt.Sprintf("client %d invites client %d to chat %x (may open: %v) -> %v", m.idx, t.idx, ch.id, m.open, rep))
		if m.open {
			exp = append(exp, delivery{t.idx, fmt.Sprintf("113 chat=%x from=%x", ch.id, rc.U16(int(m.id))), false})
		}
	case "join":
		ch := core.Pick(r, live)
		m := core.Pick(r, conn)
		before := map[int]bool{}
		for i := range ch.members {
			before[i] = true
		}
		rep, ok := m.cl.Call(115, rc.F(114, ch.id))
		w.log = append(w.log, fmt.Sprintf("client %d joins chat %x -> reply fields %d", m.idx, ch.id, len(rep.Fields)))
		if !ok || rep.Err != 0 {
			w.c.Fail("C12/join/refused", "step %d: join refused: %v", w.step, rep)
			return nil, false
		}
		for i := range before {
			if w.clients[i].connected {
				exp = append(exp, delivery{i, fmt.Sprintf("117 chat=%x user=%x name=%x", ch.id, rc.U16(int(m.id)), m.name), true})
			}
		}
		ch.members[m.idx] = true
		delete(w.lastLeaver[string(ch.id)], m.idx)
		// the reply lists the members and the subject
		if s, _ := rep.Get(115); string(s) != ch.subject {
			w.c.Fail("C12/join/subject", "step %d: join reply carries subject %q, model %q", w.step, s, ch.subject)
		}
		us, err := refclient.UserList(rep)
		if err != nil {
			w.c.Fail("C12/join/member-list", "join reply member list: %v", err)
		}
		got := map[uint16]bool{}
		for _, u := range us {
			got[u.ID] = true
		}
		for i := range ch.members {
			if w.clients[i].connected && !got[w.clients[i].id] {
				w.c.Fail("C12/join/member-missing", "step %d: join reply lacks member %d\nhistory:\n%s", w.step, i, w.hist())
			}
		}
	case "leave":
		ch := core.Pick(r, live)
		var mem []*mclient
		for i := range ch.members {
			if w.clients[i].connected {
				mem = append(mem, w.clients[i])
			}
		}
		m := core.Pick(r, mem)
		m.cl.Send(116, rc.F(114, ch.id))
		delete(ch.members, m.idx)
		w.note(ch, m.idx)
		w.log = append(w.log, fmt.Sprintf("client %d leaves chat %x", m.idx, ch.id))
		for i := range ch.members {
			if w.clients[i].connected {
				exp = append(exp, delivery{i, fmt.Sprintf("118 chat=%x user=%x", ch.id, rc.U16(int(m.id))), true})
			}
		}
	case "ghost-chat":
		// somebody who is in no chat at all declines, leaves or writes to a chat id that does not exist (its own
		// connection may well be dropped for that); every real chat must go on working for its members
		w.ghosts++
		g, err := refclient.LoginAs(w.srv, fmt.Sprintf("10.12.66.%d:%d", 1+w.ghosts%250, 3000+w.step), "u0", "", fmt.Sprintf("Ghost%d", w.ghosts))
		if err != nil {
			return nil, true
		}
		bogus := r.Bytes(4)
		switch r.Intn(3) {
		case 0:
			g.Send(114, rc.F(114, bogus))
		case 1:
			g.Send(116, rc.F(114, bogus))
		case 2:
			g.Send(105, rc.F(114, bogus), rc.FS(101, "to nobody"))
		}
		g.Conn.WaitIdle(refclient.Watchdog)
		g.Hangup()
		w.log = append(w.log, fmt.Sprintf("an outsider addresses the non-existent chat %x and goes away", bogus))
	case "stray-leave":
		// a leave request from somebody who is not (or no longer) a member: a duplicate leave, or an invitee who never
		// joined. It must not change the chat's audience; a leave notice to the members is tolerated, not demanded.
		ch := core.Pick(r, live)
		var non []*mclient
		for _, o := range conn {
			if !ch.members[o.idx] {
				non = append(non, o)
			}
		}
		if len(non) == 0 {
			return nil, true
		}
		m := core.Pick(r, non)
		m.cl.Send(116, rc.F(114, ch.id))
		w.note(ch, m.idx)
		w.log = append(w.log, fmt.Sprintf("client %d (not a member) sends a leave for chat %x", m.idx, ch.id))
		for i := range ch.members {
			if w.clients[i].connected {
				exp = append(exp, delivery{i, fmt.Sprintf("118 chat=%x user=%x", ch.id, rc.U16(int(m.id))), false})
			}
		}
	case "decline":
		ch := core.Pick(r, live)
		var non []*mclient
		for _, o := range conn {
			if !ch.members[o.idx] {
				non = append(non, o)
			}
		}
		if len(non) == 0 {
			return nil, true
		}
		m := core.Pick(r, non)
		m.cl.Send(114, rc.F(114, ch.id))
		w.note(ch, m.idx)
		w.log = append(w.log, fmt.Sprintf("client %d declines the invitation to chat %x", m.idx, ch.id))
		for i := range ch.members {
			if w.clients[i].connected {
				exp = append(exp, delivery{i, fmt.Sprintf("106 chat=%x data=%x", ch.id, m.name+" declined invitation to chat"), false})
			}
		}
	case "subject":
		ch := core.Pick(r, live)
		var mem []*mclient
		for i := range ch.members {
			if w.clients[i].connected {
				mem = append(mem, w.clients[i])
			}
		}
		m := core.Pick(r, mem)
		subj := string(r.Printable(r.Intn(40)))
		m.cl.Send(120, rc.F(114, ch.id), rc.FS(115, subj))
		ch.subject = subj
		w.log = append(w.log, fmt.Sprintf("client %d sets subject of chat %x to %q", m.idx, ch.id, subj))
		for i := range ch.members {
			if w.clients[i].connected {
				exp = append(exp, delivery{i, fmt.Sprintf("119 chat=%x subject=%x", ch.id, subj), true})
			}
		}
	}
	return exp, true
}

func (w *world) note(ch *mchat, idx int) {
	if w.lastLeaver[string(ch.id)] == nil {
		w.lastLeaver[string(ch.id)] = map[int]bool{}
	}
	w.lastLeaver[string(ch.id)][idx] = true
}

func (w *world) check(exp []delivery) bool {
	if !w.srv.Quiesce(refclient.Watchdog) {
		w.c.Unsure("no quiescence after step %d", w.step)
		return false
	}
	for _, m := range w.clients {
		if m.cl == nil {
			continue
		}
		got := map[string]int{}
		for _, t := range m.cl.Drain() {
			if s := sigOf(t); s != "" {
				got[s]++
				w.c.Count("chat_transactions_observed", 1)
			}
		}
		if m.cl.FrameErr != nil {
			w.c.Unsure("client %d stream does not re-frame (C14's concern): %v", m.idx, m.cl.FrameErr)
			return false
		}
		for _, d := range exp {
			if d.to != m.idx {
				continue
			}
			n := got[d.sig]
			if d.must && n != 1 {
				k := "missing"
				if n > 1 {
					k = "duplicate"
				}
				w.c.Fail("C12/delivery-"+k+"/"+d.sig[:3], "after step %d: client %d (read=%v) received %d copies of the required delivery %s (expected exactly one)\nhistory:\n%s", w.step, m.idx, m.read, n, trunc(d.sig), w.hist())
				return false
			}
			if !d.must && n > 1 {
				w.c.Fail("C12/delivery-duplicate/"+d.sig[:3], "after step %d: client %d received %d copies of %s", w.step, m.idx, n, trunc(d.sig))
				return false
			}
			delete(got, d.sig)
		}
		for s, n := range got {
			w.c.Fail("C12/delivery-unexpected/"+s[:3], "after step %d: client %d (connected=%v read=%v) received %d x %s which the model does not address to it\nhistory:\n%s", w.step, m.idx, m.connected, m.read, n, trunc(s), w.hist())
			return false
		}
	}
	return true
}

func trunc(s string) string {
	if len(s) > 300 {
		return s[:300] + "…"
	}
	return s
}

func runCase(c *core.Case) {
	r := c.R
	n := 2 + r.Intn(8)
	var accs []fixture.Account
	w := &world{c: c, kinds: map[string]int{}, lastLeaver: map[string]map[int]bool{}}
	for i := 0; i < n; i++ {
		m := &mclient{idx: i, read: r.Chance(3, 4), send: r.Chance(3, 4), open: r.Chance(3, 4)}
		bits := []int{20, 21}
		if m.read {
			bits = append(bits, 9)
		}
		if m.send {
			bits = append(bits, 10)
		}
		if m.open {
			bits = append(bits, 11)
		}
		anyName := r.Bool()
		accName := fmt.Sprintf("Account%d", i)
		m.name = accName
		if anyName {
			bits = append(bits, 26)
			m.name = core.Pick(r, []string{"Al", "A-very-long-user-name-indeed", "thirteen-char", "x", "Fourteen-chars", "Bob " + fmt.Sprint(i)})
		}
		accs = append(accs, fixture.Account{Login: fmt.Sprintf("u%d", i), Name: accName, Access: rc.Bitmap(bits...)})
		w.clients = append(w.clients, m)
	}
	accs = append(accs, fixture.Account{Login: "guest", Name: "guest", Access: fixture.GuestBits()})
	srv, err := fixture.New(fixture.Options{Accounts: accs})
	if err != nil {
		c.Unsure("fixture: %v", err)
		return
	}
	defer srv.Close()
	w.srv = srv
	for i := 0; i < 2; i++ {
		if !w.connect(w.clients[i], i == 0) {
			return
		}
	}
	srv.Quiesce(refclient.Watchdog)
	for _, m := range w.connected() {
		m.cl.Drain()
	}
	steps := 25 + r.Intn(26)
	for w.step = 1; w.step <= steps; w.step++ {
		exp, ok := w.doStep()
		if !ok || !w.check(exp) {
			break
		}
		c.Count("steps", 1)
		c.Count("required_deliveries", len(exp))
	}
	var ks []string
	for k := range w.kinds {
		ks = append(ks, k)
	}
	sort.Strings(ks)
	class := ""
	if w.sawPrivAfterLeave || w.sawMixedPublic {
		class = fmt.Sprintf("n%d/%s", n, strings.Join(ks, "+"))
	}
	sample := w.log
	if len(sample) > 8 {
		sample = sample[:8]
	}
	c.Describe(class, map[string]any{"clients": n, "steps": w.step - 1, "first_operations": sample})
}

// runStress: frozen membership, all members send concurrently, every message id must reach every
// member exactly once (race build).
func runStress(b core.Batch, em *core.Emitter) {
	var a struct {
		Runs int `json:"runs"`
	}
	json.Unmarshal(b.Args, &a)
	for run := 0; run < a.Runs; run++ {
		id := fmt.Sprintf("C12/stress/%d", run)
		core.SafeCase(em, id, func() {
			em.Begin(id, nil)
			r := core.NewRand(b.Seed, uint64(run), 0x12)
			n := 3 + r.Intn(6)
			srv, err := fixture.New(fixture.Options{Accounts: append(fixture.DefaultAccounts(), fixture.Account{Login: "mute", Name: "mute", Access: make([]byte, 8)})})
			if err != nil {
				em.Emit(core.Result{Case: id, Verdict: core.Inconclusive, Msg: err.Error()})
				return
			}
			defer srv.Close()
			// bystanders who may not read chat (so they are nobody's audience) connect first - they hold the lowest ids -
			// and disconnect one after the other while the others are sending
			var bystanders []*refclient.Client
			for i := 0; i < 12; i++ {
				if cl, err := refclient.LoginAs(srv, fmt.Sprintf("10.12.8.%d:1", i+1), "mute", "", fmt.Sprintf("B%d", i)); err == nil {
					bystanders = append(bystanders, cl)
				}
			}
			var cls []*refclient.Client
			for i := 0; i < n; i++ {
				cl, err := refclient.LoginAs(srv, fmt.Sprintf("10.12.9.%d:1", i+1), "admin", "", fmt.Sprintf("S%d", i))
				if err != nil {
					em.Emit(core.Result{Case: id, Verdict: core.Inconclusive, Msg: err.Error()})
					return
				}
				cls = append(cls, cl)
			}
			ul, _ := cls[0].Call(300)
			us, _ := refclient.UserList(ul)
			// one private chat with members 0..k-1, the rest only in public chat
			k := 2 + r.Intn(n-1)
			rep, ok := cls[0].Call(112, rc.F(103, rc.U16(int(us[1].ID))))
			chat, _ := rep.Get(114)
			if !ok || len(chat) != 4 {
				em.Emit(core.Result{Case: id, Verdict: core.Inconclusive, Msg: "no chat"})
				return
			}
			for i := 1; i < k; i++ {
				cls[i].Call(115, rc.F(114, chat))
			}
			srv.Quiesce(refclient.Watchdog)
			for _, cl := range cls {
				cl.Drain()
			}
			per := 30
			var wg sync.WaitGroup
			for i := 0; i < n; i++ {
				wg.Add(1)
				go func(i int) {
					defer wg.Done()
					for j := 0; j < per; j++ {
						cls[i].Send(105, rc.FS(101, fmt.Sprintf("pub-%d-%d", i, j)))
						if i < k {
							cls[i].Send(105, rc.F(114, chat), rc.FS(101, fmt.Sprintf("priv-%d-%d", i, j)))
						}
					}
				}(i)
			}
			wg.Add(1)
			go func() {
				defer wg.Done()
				for _, b := range bystanders {
					time.Sleep(300 * time.Microsecond)
					b.Hangup()
				}
			}()
			wg.Wait()
			if !srv.Quiesce(refclient.Watchdog) {
				em.Emit(core.Result{Case: id, Verdict: core.Inconclusive, Msg: "no quiescence"})
				return
			}
			res := core.Result{Case: id, Class: fmt.Sprintf("stress/n%d/k%d", n, k), Verdict: core.Held, Obs: map[string]int{"bystanders_disconnecting_during_the_sends": len(bystanders)},
				Sample: map[string]any{"clients": n, "private_members": k, "messages_per_sender": per}}
			for ci, cl := range cls {
				seen := map[string]int{}
				for _, t := range cl.Drain() {
					if t.Type != 106 {
						continue
					}
					d, _ := t.Get(101)
					s := string(d)
					if p := strings.LastIndex(s, ":  "); p >= 0 {
						seen[s[p+3:]]++
					}
					res.Obs["stress_lines_received"]++
				}
				if cl.FrameErr != nil {
					res.Verdict, res.Msg = core.Inconclusive, "stream does not re-frame (C14): "+cl.FrameErr.Error()
					break
				}
				for i := 0; i < n && res.Verdict == core.Held; i++ {
					for j := 0; j < per; j++ {
						if c := seen[fmt.Sprintf("pub-%d-%d", i, j)]; c != 1 {
							res.Verdict, res.Key = core.Violated, "C12/stress/public-count"
							res.Msg = fmt.Sprintf("client %d received public message pub-%d-%d %d times under concurrent senders", ci, i, j, c)
						}
						want := 0
						if i < k && ci < k {
							want = 1
						}
						if c := seen[fmt.Sprintf("priv-%d-%d", i, j)]; c != want && i < k {
							res.Verdict, res.Key = core.Violated, "C12/stress/private-count"
							res.Msg = fmt.Sprintf("client %d (member=%v) received private message priv-%d-%d %d times, want %d", ci, ci < k, i, j, c, want)
						}
					}
				}
			}
			em.Emit(res)
		})
		// second stress shape: membership churns (members leave and re-join) while the others keep sending; when
		// the churn is over every client that has left must be out of the audience for good
		cid := fmt.Sprintf("C12/churn/%d", run)
		core.SafeCase(em, cid, func() {
			em.Begin(cid, nil)
			r := core.NewRand(b.Seed, uint64(run), 0x1212)
			n := 10 + r.Intn(6)
			srv, err := fixture.New(fixture.Options{})
			if err != nil {
				em.Emit(core.Result{Case: cid, Verdict: core.Inconclusive, Msg: err.Error()})
				return
			}
			defer srv.Close()
			var cls []*refclient.Client
			for i := 0; i < n; i++ {
				cl, err := refclient.LoginAs(srv, fmt.Sprintf("10.12.8.%d:1", i+1), "admin", "", fmt.Sprintf("M%d", i))
				if err != nil {
					em.Emit(core.Result{Case: cid, Verdict: core.Inconclusive, Msg: err.Error()})
					return
				}
				cls = append(cls, cl)
			}
			ul, _ := cls[0].Call(300)
			us, _ := refclient.UserList(ul)
			rep, ok := cls[0].Call(112, rc.F(103, rc.U16(int(us[1].ID))))
			chat, _ := rep.Get(114)
			if !ok || len(chat) != 4 {
				em.Emit(core.Result{Case: cid, Verdict: core.Inconclusive, Msg: "no chat"})
				return
			}
			for i := 1; i < n; i++ {
				cls[i].Call(115, rc.F(114, chat))
			}
			srv.Quiesce(refclient.Watchdog)
			// clients 0..3 stay and keep sending; in every round the others (re-)join, then all leave at once while
			// the four keep sending; after each round the leavers must be out of the audience
			const stay = 4
			res := core.Result{Case: cid, Class: fmt.Sprintf("churn/n%d", n), Verdict: core.Held, Obs: map[string]int{"churn_runs": 1},
				Sample: map[string]any{"clients": n, "leavers": n - stay, "rounds": 10}}
			for round := 0; round < 10 && res.Verdict == core.Held; round++ {
				for i := stay; i < n; i++ {
					if round > 0 {
						cls[i].Call(115, rc.F(114, chat))
					}
				}
				srv.Quiesce(refclient.Watchdog)
				var wg sync.WaitGroup
				stop := make(chan struct{})
				for i := 0; i < stay; i++ {
					wg.Add(1)
					go func(i int) {
						defer wg.Done()
						for j := 0; ; j++ {
							select {
							case <-stop:
								return
							default:
							}
							cls[i].Send(105, rc.F(114, chat), rc.FS(101, fmt.Sprintf("during-%d-%d-%d", round, i, j)))
							if j%32 == 31 {
								time.Sleep(20 * time.Microsecond)
							}
						}
					}(i)
				}
				time.Sleep(300 * time.Microsecond)
				var lw sync.WaitGroup
				for i := stay; i < n; i++ {
					lw.Add(1)
					go func(i int) {
						defer lw.Done()
						time.Sleep(time.Duration((i*37+round*11)%200) * time.Microsecond)
						cls[i].Send(116, rc.F(114, chat))
						cls[i].Conn.WaitIdle(refclient.Watchdog)
					}(i)
				}
				lw.Wait()
				time.Sleep(200 * time.Microsecond)
				close(stop)
				wg.Wait()
				if !srv.Quiesce(refclient.Watchdog) {
					res.Verdict, res.Msg = core.Inconclusive, "no quiescence"
					break
				}
				for _, cl := range cls {
					cl.Drain()
				}
				// after the churn: final lines from members that stayed
				for i := 0; i < 2; i++ {
					cls[i].Send(105, rc.F(114, chat), rc.FS(101, fmt.Sprintf("final-%d-%d", round, i)))
					cls[i].Send(120, rc.F(114, chat), rc.FS(115, fmt.Sprintf("subject-%d-%d", round, i)))
				}
				srv.Quiesce(refclient.Watchdog)
				res.Obs["churn_rounds"]++
				for ci, cl := range cls {
					lines := 0
					for _, t := range cl.Drain() {
						if t.Type == 106 || t.Type == 119 {
							lines++
						}
					}
					want := 0
					if ci < stay {
						want = 4
					}
					if lines != want {
						res.Verdict, res.Key = core.Violated, "C12/churn/audience-after-churn"
						res.Msg = fmt.Sprintf("round %d: after %d members left concurrently with chat traffic, client %d (member now: %v) received %d of the 4 final chat lines/subject changes, want %d", round, n-stay, ci, ci < stay, lines, want)
					}
				}
			}
			em.Emit(res)
		})
	}
}
