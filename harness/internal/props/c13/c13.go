// Package c13: presence converges and user IDs address one live user.
package c13

import (
	"context"
	"encoding/json"
	"fmt"
	"sort"
	"strings"
	"sync"
	"sync/atomic"
	"time"

	"verifharness/internal/core"
	"verifharness/internal/fixture"
	"verifharness/internal/refclient"
	"verifharness/internal/transport"
	rc "verifharness/internal/refcodec"
)

func init() {
	core.Register(&core.Simple{
		Id: "C13", Lvl: "exploration", Quick: 200, Thorough: 5000, PerBatch: 50, Width: 16, Timeout: 1500,
		RuleText: "roster histories: 20-45 steps over 3-8 clients (connect with either login flow, agreed with options/auto-reply, name/icon/option changes, privilege changes of a logged-in user's account by an administrator, disconnects, private messages); every client folds the user-change/user-left notifications it receives into the list it fetched; after every step at quiescence each folded roster must equal a fresh user-list reply restricted to users that completed login, and the reference model (id, name, icon, flags); private messages must reach exactly the addressed id and honour refuse flag / automatic reply. One long history per run keeps K clients logged in while more than 70,000 further connections log in and leave on the same server (the 16-bit id space wraps): at checkpoints all live ids must be pairwise distinct, each live client found under exactly one id, and a private message to each long-lived id must reach only its holder. distinct = multiset of step kinds (histories) / checkpoint (long history); a stress batch lets logins (with an immediate list fetch) race disconnects while a hook-injected delay at the outbox holds user-left notifications in flight, then compares every survivor's folded roster with a fresh list. non-trivial = history has a privilege or name change after others fetched their lists",
		Case:     runCase,
		Extra: func(tier string, seed int64) []core.Batch {
			n := 70000
			if tier == "thorough" {
				n = 300000
			}
			a, _ := json.Marshal(map[string]int{"connections": n})
			runs := 40
			if tier == "thorough" {
				runs = 600
			}
			sa, _ := json.Marshal(map[string]int{"runs": runs})
			idle := 2
			if tier == "thorough" {
				idle = 12
			}
			ia, _ := json.Marshal(map[string]int{"runs": idle})
			bs := []core.Batch{{Name: "long-history", Args: a, Timeout: 2400}, {Name: "stress", Args: sa, Timeout: 1200}, {Name: "idle", Args: ia, Timeout: 1200}}
			if tier == "thorough" {
				// one more wrap of the id space with 300 idle residents holding the ids 7..306 all along: right after the
				// wrap the search for a free id has to pass more than 255 ids in a row that are still held
				ra, _ := json.Marshal(map[string]int{"connections": 66000, "residents": 300})
				bs = append(bs, core.Batch{Name: "long-history-residents", Args: ra, Timeout: 2400})
			}
			return bs
		},
		RunExtra: func(b core.Batch, em *core.Emitter) {
			if b.Name == "stress" {
				runStress(b, em)
				return
			}
			if b.Name == "idle" {
				runIdle(b, em)
				return
			}
			runLong(b, em) // "long-history" and "long-history-residents"
		},
	})
}

type entry struct {
	name  string
	icon  int
	flags int
}

type muser struct {
	idx                  int
	cl                   *refclient.Client
	id                   uint16
	connected, completed bool
	name                 string
	accName              string
	icon                 int
	bits                 []byte
	refusePM, refuseChat bool
	auto                 string
	roster               map[uint16]entry
}

func (u *muser) flags() int {
	f := 0
	if rc.BitSet(u.bits, 22) {
		f |= 2
	}
	if u.refusePM {
		f |= 4
	}
	if u.refuseChat {
		f |= 8
	}
	return f
}

type world struct {
	c     *core.Case
	srv   *fixture.Server
	users []*muser
	log   []string
	kinds map[string]int
	step  int
	late  bool
}

func (w *world) hist() string {
	s := strings.Join(w.log, "\n")
	if len(s) > 5000 {
		s = "…" + s[len(s)-5000:]
	}
	return s
}

func intField(t rc.Tran, id int) int {
	d, _ := t.Get(id)
	v, _ := rc.DecodeIntField(d)
	return v
}

func (w *world) fold(u *muser) bool {
	for _, t := range u.cl.Drain() {
		switch t.Type {
		case 301:
			idb, _ := t.Get(103)
			if len(idb) != 2 {
				w.c.Fail("C13/notify/bad-id", "user-change notification with id field %x", idb)
				return false
			}
			nm, _ := t.Get(102)
			u.roster[uint16(idb[0])<<8|uint16(idb[1])] = entry{string(nm), intField(t, 104), intField(t, 112)}
			w.c.Count("notifications_folded", 1)
		case 302:
			idb, _ := t.Get(103)
			if len(idb) == 2 {
				delete(u.roster, uint16(idb[0])<<8|uint16(idb[1]))
			}
			w.c.Count("notifications_folded", 1)
		}
	}
	return true
}

func (w *world) fetch(u *muser) (map[uint16]entry, bool) {
	rep, ok := u.cl.Call(300)
	if !ok || rep.Err != 0 {
		w.c.Fail("C13/user-list/failed", "after step %d: user list request of client %d failed: %v\nhistory:\n%s", w.step, u.idx, rep, w.hist())
		return nil, false
	}
	us, err := refclient.UserList(rep)
	if err != nil {
		w.c.Fail("C13/user-list/unparseable", "user list: %v", err)
		return nil, false
	}
	m := map[uint16]entry{}
	for _, x := range us {
		if _, dup := m[x.ID]; dup {
			w.c.Fail("C13/user-list/duplicate-id", "after step %d: id %d appears twice in the user list\nhistory:\n%s", w.step, x.ID, w.hist())
			return nil, false
		}
		m[x.ID] = entry{string(x.Name), int(x.Icon), int(x.Flags)}
	}
	return m, true
}

func (w *world) login(u *muser, oldFlow bool) bool {
	r := w.c.R
	cl := refclient.Connect(w.srv, fmt.Sprintf("10.13.%d.%d:%d", u.idx, 1+w.step%250, 3000+w.step))
	if err := cl.Handshake(); err != nil {
		w.c.Unsure("handshake: %v", err)
		return false
	}
	o := refclient.LoginOpts{Login: fmt.Sprintf("u%d", u.idx), Version: 190}
	reqName := core.Pick(r, []string{"Ann", "Bob", "a name with spaces", "Zed" + fmt.Sprint(r.Intn(100)), ""})
	icon := r.Intn(4000)
	if oldFlow {
		if reqName == "" {
			reqName = "Old" + fmt.Sprint(u.idx)
		}
		o.Name, o.Icon = &reqName, icon
	}
	rep, ok := cl.Login(o)
	if !ok || rep.Err != 0 {
		w.c.Unsure("login failed: %v", rep)
		return false
	}
	u.cl, u.connected, u.completed = cl, true, false
	u.refusePM, u.refuseChat, u.auto = false, false, ""
	u.icon, u.name = 0, ""
	acc := w.srv.S.AccountManager.Get(o.Login)
	u.bits = append([]byte{}, acc.Access[:]...)
	if oldFlow {
		u.completed = true
		u.icon = icon
		u.name = u.accName
		if rc.BitSet(u.bits, 26) {
			u.name = reqName
		}
	}
	// learn the id: the entry of the fresh list that no other live user owns
	list, ok := w.fetch(u)
	if !ok {
		return false
	}
	owned := map[uint16]bool{}
	for _, o := range w.users {
		if o != u && o.connected {
			owned[o.id] = true
		}
	}
	var mine []uint16
	for id := range list {
		if !owned[id] {
			mine = append(mine, id)
		}
	}
	if len(mine) != 1 {
		w.c.Fail("C13/login/id", "after step %d: client %d cannot identify its own entry: candidates %v (live ids %v)\nhistory:\n%s", w.step, u.idx, mine, owned, w.hist())
		return false
	}
	u.id = mine[0]
	u.roster = map[uint16]entry{}
	if u.completed {
		w.setRosterFromList(u, list)
	}
	w.log = append(w.log, fmt.Sprintf("client %d logs in (oldflow=%v, requested name %q, icon %d) -> id %d", u.idx, oldFlow, reqName, icon, u.id))
	return true
}

func (w *world) completedIDs() map[uint16]*muser {
	m := map[uint16]*muser{}
	for _, u := range w.users {
		if u.connected && u.completed {
			m[u.id] = u
		}
	}
	return m
}

func (w *world) setRosterFromList(u *muser, list map[uint16]entry) {
	comp := w.completedIDs()
	u.roster = map[uint16]entry{}
	for id, e := range list {
		if comp[id] != nil {
			u.roster[id] = e
		}
	}
}

func optsOf(refPM, refChat, auto bool) int {
	o := 0
	if refPM {
		o |= 1
	}
	if refChat {
		o |= 2
	}
	if auto {
		o |= 4
	}
	return o
}

func (w *world) doStep() bool {
	r := w.c.R
	var live, done, pending, off []*muser
	for _, u := range w.users {
		switch {
		case !u.connected:
			off = append(off, u)
		case u.completed:
			live = append(live, u)
			done = append(done, u)
		default:
			live = append(live, u)
			pending = append(pending, u)
		}
	}
	kind := core.Pick(r, []string{"login-old", "login-new", "agree", "agree", "set-info", "set-info", "set-info", "set-user", "set-user", "disconnect", "vanish", "pm", "pm", "deleted-while-logging-in"})
	if len(pending) > 0 && r.Chance(1, 2) {
		kind = "agree"
	}
	if len(done) < 2 {
		kind = core.Pick(r, []string{"login-old", "login-new"})
		if len(off) == 0 {
			kind = "agree"
		}
	}
	w.kinds[kind]++
	switch kind {
	case "login-old", "login-new":
		if len(off) == 0 {
			return true
		}
		u := core.Pick(r, off)
		if !w.login(u, kind == "login-old") {
			return false
		}
	case "agree":
		if len(pending) == 0 {
			return true
		}
		u := core.Pick(r, pending)
		reqName := core.Pick(r, []string{"Carl", "Dee", "new-flow name", "N" + fmt.Sprint(r.Intn(100))})
		icon := r.Intn(4000)
		refPM, refChat, auto := r.Chance(1, 3), r.Chance(1, 3), r.Chance(1, 3)
		autoText := ""
		if auto {
			autoText = "away-" + string(r.Printable(6))
		}
		u.cl.WideInts = r.Chance(1, 4) // the options integer in its 4-byte encoding
		if u.cl.WideInts {
			w.kinds["agree-wide-options"]++
		}
		if r.Chance(1, 8) {
			// other legal shapes of the same request: no icon field at all, an empty one, or the icon in a single byte.
			// Whatever the shape, everybody's user list must stay a list of whole records (icon 0, or the byte's value)
			u.cl.IconShape = core.Pick(r, []string{"absent", "empty", "one-byte"})
			switch u.cl.IconShape {
			case "one-byte":
				icon &= 0xff
			default:
				icon = 0
			}
			w.kinds["agree-icon-"+u.cl.IconShape]++
		}
		if _, ok := u.cl.Agreed(reqName, icon, optsOf(refPM, refChat, auto), autoText); !ok {
			w.c.Fail("C13/agreed/no-reply", "step %d: no reply to agreed", w.step)
			return false
		}
		u.cl.IconShape = ""
		u.completed, u.icon, u.refusePM, u.refuseChat, u.auto = true, icon, refPM, refChat, autoText
		u.name = u.accName
		if rc.BitSet(u.bits, 26) {
			u.name = reqName
		}
		list, ok := w.fetch(u)
		if !ok {
			return false
		}
		w.setRosterFromList(u, list)
		w.log = append(w.log, fmt.Sprintf("client %d agrees (requested name %q icon %d refusePM=%v refuseChat=%v auto=%q)", u.idx, reqName, icon, refPM, refChat, autoText))
	case "set-info":
		u := core.Pick(r, done)
		reqName := core.Pick(r, []string{"Eve", "Fay", "changed name", "C" + fmt.Sprint(r.Intn(100))})
		icon := r.Intn(4000)
		fs := []rc.Field{rc.FS(102, reqName)}
		if r.Chance(1, 4) {
			fs = append(fs, rc.F(104, rc.U32(icon)))
		} else {
			fs = append(fs, rc.F(104, rc.U16(icon)))
		}
		desc := "no options"
		if r.Chance(2, 3) {
			refPM, refChat, auto := r.Chance(1, 3), r.Chance(1, 3), r.Chance(1, 3)
			autoText := ""
			if r.Chance(1, 4) {
				fs = append(fs, rc.F(113, rc.U32(optsOf(refPM, refChat, auto))))
				w.kinds["set-info-wide-options"]++
			} else {
				fs = append(fs, rc.F(113, rc.U16(optsOf(refPM, refChat, auto))))
			}
			if auto {
				autoText = "auto-" + string(r.Printable(6))
				fs = append(fs, rc.FS(215, autoText))
			}
			u.refusePM, u.refuseChat, u.auto = refPM, refChat, autoText
			desc = fmt.Sprintf("refusePM=%v refuseChat=%v auto=%q", refPM, refChat, autoText)
		}
		u.cl.Send(304, fs...)
		u.icon = icon
		if rc.BitSet(u.bits, 26) {
			u.name = reqName
		}
		w.late = true
		w.log = append(w.log, fmt.Sprintf("client %d sets info (requested name %q icon %d, %s; may use any name: %v)", u.idx, reqName, icon, desc, rc.BitSet(u.bits, 26)))
	case "set-user":
		var cands []*muser
		for _, u := range done {
			if u.idx != 0 {
				cands = append(cands, u)
			}
		}
		if len(cands) == 0 || !w.users[0].connected || !w.users[0].completed {
			return true
		}
		u := core.Pick(r, cands)
		nb := append([]byte{}, u.bits...)
		for _, b := range []int{22, 26, 40, 9} {
			if r.Bool() {
				nb[b/8] ^= 0x80 >> uint(b%8)
			}
		}
		rep, ok := w.users[0].cl.Call(353, rc.F(105, rc.Obfuscate([]byte(fmt.Sprintf("u%d", u.idx)))), rc.FS(102, u.accName), rc.F(110, nb), rc.F(106, []byte{0}))
		if !ok || rep.Err != 0 {
			w.c.Fail("C13/set-user/refused", "step %d: set-user refused: %v", w.step, rep)
			return false
		}
		u.bits = nb
		w.late = true
		w.log = append(w.log, fmt.Sprintf("admin sets privileges of client %d's account to %x (disconnect-users: %v, any-name: %v)", u.idx, nb, rc.BitSet(nb, 22), rc.BitSet(nb, 26)))
	case "deleted-while-logging-in":
		// two different operations on one account overlap: somebody logs in to it (authenticated, account looked up, not
		// yet registered - a hook holds the login there) while the administrator deletes it. However the server resolves
		// that, nobody may be left in the registry once the connection has ended (checked after every step).
		if !w.users[0].connected || !w.users[0].completed {
			return true
		}
		login := fmt.Sprintf("tmp%d", w.step)
		if rep, ok := w.users[0].cl.Call(350, rc.F(105, rc.Obfuscate([]byte(login))), rc.FS(102, "Temp"), rc.F(106, rc.Obfuscate([]byte(""))), rc.F(110, fixture.GuestBits())); !ok || rep.Err != 0 {
			w.c.Unsure("creating the temporary account failed: %v", rep)
			return false
		}
		held, release := make(chan struct{}, 4), make(chan struct{})
		w.srv.OnEvent = func(name string, cid [2]byte, x uint32) {
			if name == "conn.registering" {
				held <- struct{}{}
				select {
				case <-release:
				case <-time.After(refclient.Watchdog):
				}
			}
		}
		g := refclient.Connect(w.srv, fmt.Sprintf("10.13.77.%d:9", 1+w.step%250))
		if g.Handshake() != nil {
			w.srv.OnEvent = nil
			w.c.Unsure("handshake of the temporary user failed")
			return false
		}
		g.Send(107, rc.F(105, rc.Obfuscate([]byte(login))), rc.F(106, rc.Obfuscate([]byte(""))), rc.F(160, rc.U16(190)))
		select {
		case <-held:
		case <-time.After(refclient.Watchdog):
			close(release)
			w.srv.OnEvent = nil
			w.c.Unsure("the temporary user's login was not observed at the hook")
			return false
		}
		rep, ok := w.users[0].cl.CallDirect(351, rc.F(105, rc.Obfuscate([]byte(login))))
		close(release)
		select {
		case <-g.Conn.Done:
		case <-time.After(2 * time.Second):
			g.Hangup() // the server let the session live on; that is not judged here, the registry is
			<-g.Conn.Done
		}
		w.srv.OnEvent = nil
		w.late = true
		w.log = append(w.log, fmt.Sprintf("account %s deleted by the administrator (reply ok=%v err=%d) while a login to it was held before registration", login, ok, rep.Err))
	case "disconnect":
		var cands []*muser
		for _, u := range live {
			if u.idx != 0 {
				cands = append(cands, u)
			}
		}
		if len(cands) == 0 {
			return true
		}
		u := core.Pick(r, cands)
		u.cl.Hangup()
		u.connected, u.completed = false, false
		w.log = append(w.log, fmt.Sprintf("client %d disconnects (id %d)", u.idx, u.id))
	case "vanish":
		// a user's machine disappears: first the server's writes to it start failing (a broadcast is provoked to make
		// one happen), only then does its read side see the end of the stream. The others must still be told it left.
		var cands []*muser
		for _, u := range done {
			if u.idx != 0 {
				cands = append(cands, u)
			}
		}
		if len(cands) == 0 {
			return true
		}
		u := core.Pick(r, cands)
		w.srv.Quiesce(refclient.Watchdog)
		u.cl.Conn.SetWriteLimit(1 + r.Intn(20))
		w.users[0].cl.Call(304, rc.FS(102, w.users[0].name), rc.F(104, rc.U16(w.users[0].icon)))
		w.srv.Quiesce(refclient.Watchdog)
		u.cl.Hangup()
		u.connected, u.completed = false, false
		w.log = append(w.log, fmt.Sprintf("client %d vanishes (id %d): writes to it fail, then its stream ends", u.idx, u.id))
	case "pm":
		from, to := core.Pick(r, done), core.Pick(r, done)
		if !rc.BitSet(from.bits, 40) {
			return true
		}
		text := "pm-" + string(r.Printable(8))
		w.srv.Quiesce(refclient.Watchdog)
		for _, u := range live {
			if !w.fold(u) {
				return false
			}
		}
		rep, ok := from.cl.Call(108, rc.F(103, rc.U16(int(to.id))), rc.F(113, rc.U16(1)), rc.FS(101, text))
		w.log = append(w.log, fmt.Sprintf("client %d sends private message to client %d (id %d, refuses: %v, auto: %q) -> %v", from.idx, to.idx, to.id, to.refusePM, to.auto, rep))
		if !ok || rep.Err != 0 {
			w.c.Fail("C13/pm/no-reply", "step %d: private message got no (or an error) reply: %v\nhistory:\n%s", w.step, rep, w.hist())
			return false
		}
		w.srv.Quiesce(refclient.Watchdog)
		for _, u := range live {
			var got []rc.Tran
			for _, t := range u.cl.Inbox() {
				_ = t
			}
			for _, t := range peek104(u) {
				got = append(got, t)
			}
			for _, t := range got {
				d, _ := t.Get(101)
				opt := intField(t, 113)
				sid := intField(t, 103)
				switch {
				case u == to && string(d) == text && opt == 1 && sid == int(from.id):
					if to.refusePM {
						w.c.Fail("C13/pm/refuse-flag-ignored", "step %d: client %d refuses private messages but received one\nhistory:\n%s", w.step, to.idx, w.hist())
						return false
					}
					w.c.Count("pm_delivered", 1)
				case u == from && opt == 2 && sid == int(to.id):
					if !to.refusePM {
						w.c.Fail("C13/pm/spurious-refusal", "step %d: sender got a refusal although the recipient accepts messages", w.step)
						return false
					}
					w.c.Count("pm_refused", 1)
				case u == from && to.auto != "" && string(d) == to.auto && sid == int(to.id):
					w.c.Count("pm_autoreply", 1)
				default:
					w.c.Fail("C13/pm/misdirected", "step %d: client %d (id %d) received server message %v caused by a private message from id %d to id %d\nhistory:\n%s", w.step, u.idx, u.id, t, from.id, to.id, w.hist())
					return false
				}
			}
			if u == to && !to.refusePM && to != from {
				found := false
				for _, t := range got {
					if d, _ := t.Get(101); string(d) == text {
						found = true
					}
				}
				if !found {
					w.c.Fail("C13/pm/not-delivered", "step %d: private message to id %d did not reach client %d\nhistory:\n%s", w.step, to.id, to.idx, w.hist())
					return false
				}
			}
			if u == from && to.auto != "" && !to.refusePM && to != from {
				found := false
				for _, t := range got {
					if d, _ := t.Get(101); string(d) == to.auto {
						found = true
					}
				}
				if !found {
					w.c.Fail("C13/pm/no-autoreply", "step %d: recipient has automatic reply %q but the sender did not get it\nhistory:\n%s", w.step, to.auto, w.hist())
					return false
				}
			}
			if u == from && to.refusePM && to != from {
				found := false
				for _, t := range got {
					if intField(t, 113) == 2 {
						found = true
					}
				}
				if !found {
					w.c.Fail("C13/pm/no-refusal", "step %d: recipient refuses private messages but the sender was not told\nhistory:\n%s", w.step, w.hist())
					return false
				}
			}
		}
	}
	return true
}

// peek104 drains the client's inbox, folds nothing, and returns the server messages (type 104);
// other transactions are re-queued by folding them immediately.
func peek104(u *muser) []rc.Tran {
	var out []rc.Tran
	for _, t := range u.cl.Drain() {
		switch t.Type {
		case 104:
			out = append(out, t)
		case 301:
			idb, _ := t.Get(103)
			if len(idb) == 2 {
				nm, _ := t.Get(102)
				u.roster[uint16(idb[0])<<8|uint16(idb[1])] = entry{string(nm), intField(t, 104), intField(t, 112)}
			}
		case 302:
			idb, _ := t.Get(103)
			if len(idb) == 2 {
				delete(u.roster, uint16(idb[0])<<8|uint16(idb[1]))
			}
		}
	}
	return out
}

func (w *world) check() bool {
	if !w.srv.Quiesce(refclient.Watchdog) {
		w.c.Unsure("no quiescence after step %d", w.step)
		return false
	}
	// an id must address a live user: no registry entry may outlive its connection handler (whose deferred last step
	// is the removal, so an entry found after the handler has returned can never go away)
	for _, cc := range w.srv.S.ClientMgr.List() {
		if tc, ok := cc.Connection.(*transport.Conn); ok && tc.HandlerDone() {
			w.c.Fail("C13/id-of-a-departed-user", "after step %d: id %d is still registered (and listed) although its connection has ended and its handler has returned\nhistory:\n%s", w.step, uint16(cc.ID[0])<<8|uint16(cc.ID[1]), strings.Join(w.log, "\n"))
			return false
		}
	}
	comp := w.completedIDs()
	// ids pairwise distinct among live users
	seen := map[uint16]int{}
	for _, u := range w.users {
		if u.connected {
			if o, dup := seen[u.id]; dup {
				w.c.Fail("C13/duplicate-id", "after step %d: clients %d and %d both hold id %d", w.step, o, u.idx, u.id)
				return false
			}
			seen[u.id] = u.idx
		}
	}
	for _, u := range w.users {
		if !u.connected || !u.completed {
			continue
		}
		// the previous user's list request may itself have set notifications in motion (a user who was marked away
		// becomes active again by asking): let them arrive before folding
		w.srv.Quiesce(refclient.Watchdog)
		if !w.fold(u) {
			return false
		}
		fresh, ok := w.fetch(u)
		if !ok {
			return false
		}
		// the server's list restricted to completed users must contain every completed user …
		for id, m := range comp {
			if _, ok := fresh[id]; !ok {
				w.c.Fail("C13/user-list/missing", "after step %d: user list lacks id %d (client %d)\nhistory:\n%s", w.step, id, m.idx, w.hist())
				return false
			}
			// name and icon follow the reference adoption rule; the flags word is whatever the server currently
			// shows (the statement only demands that folded rosters converge to it)
			if e := fresh[id]; e.name != m.name || e.icon != m.icon {
				w.c.Fail("C13/user-list/differs", "after step %d: user list shows id %d as %+v, model says name %q icon %d\nhistory:\n%s", w.step, id, e, m.name, m.icon, w.hist())
				return false
			}
		}
		// … and the folded roster must equal it
		for id, m := range comp {
			e, ok := u.roster[id]
			if !ok {
				w.c.Fail("C13/roster/missing", "after step %d: client %d's folded roster lacks id %d (client %d) which the server lists\nhistory:\n%s", w.step, u.idx, id, m.idx, w.hist())
				return false
			}
			if e != fresh[id] {
				w.c.Fail("C13/roster/stale", "after step %d: client %d's folded roster has id %d as %+v, a fresh user list says %+v\nhistory:\n%s", w.step, u.idx, id, e, fresh[id], w.hist())
				return false
			}
		}
		for id, e := range u.roster {
			if comp[id] == nil {
				w.c.Fail("C13/roster/ghost", "after step %d: client %d's folded roster still holds id %d (%+v) which is not a logged-in user\nhistory:\n%s", w.step, u.idx, id, e, w.hist())
				return false
			}
		}
		w.c.Count("roster_comparisons", 1)
	}
	return true
}

func runCase(c *core.Case) {
	r := c.R
	n := 3 + r.Intn(6)
	var accs []fixture.Account
	w := &world{c: c, kinds: map[string]int{}}
	for i := 0; i < n; i++ {
		bits := rc.Bitmap(9, 10, 11, 20, 40)
		if i == 0 {
			bits = rc.AllBits()
		} else {
			for _, b := range []int{22, 26, 40} {
				if r.Bool() {
					rc.SetBit(bits, b)
				}
			}
		}
		accs = append(accs, fixture.Account{Login: fmt.Sprintf("u%d", i), Name: fmt.Sprintf("Account %d", i), Access: bits})
		w.users = append(w.users, &muser{idx: i, accName: fmt.Sprintf("Account %d", i)})
	}
	accs = append(accs, fixture.Account{Login: "guest", Name: "guest", Access: fixture.GuestBits()})
	srv, err := fixture.New(fixture.Options{Accounts: accs})
	if err != nil {
		c.Unsure("fixture: %v", err)
		return
	}
	defer srv.Close()
	w.srv = srv
	if !w.login(w.users[0], true) {
		return
	}
	steps := 20 + r.Intn(26)
	for w.step = 1; w.step <= steps; w.step++ {
		if !w.doStep() || !w.check() {
			break
		}
		c.Count("steps", 1)
	}
	var ks []string
	for k := range w.kinds {
		ks = append(ks, k)
	}
	sort.Strings(ks)
	class := ""
	if w.late {
		class = fmt.Sprintf("n%d/%s", n, strings.Join(ks, "+"))
	}
	sample := w.log
	if len(sample) > 8 {
		sample = sample[:8]
	}
	c.Describe(class, map[string]any{"clients": n, "steps": w.step - 1, "first_operations": sample})
}

// ---------------------------------------------------------------------------------------------
// long history: more than 65,535 connections over one server lifetime

func runLong(b core.Batch, em *core.Emitter) {
	var a struct {
		Connections int `json:"connections"`
		Residents   int `json:"residents"`
	}
	json.Unmarshal(b.Args, &a)
	id := "C13/" + b.Name
	core.SafeCase(em, id, func() {
		em.Begin(id, nil)
		srv, err := fixture.New(fixture.Options{})
		if err != nil {
			em.Emit(core.Result{Case: id, Verdict: core.Inconclusive, Msg: err.Error()})
			return
		}
		defer srv.Close()
		const K = 6
		var long []*refclient.Client
		ids := map[int]uint16{}
		for i := 0; i < K; i++ {
			cl, err := refclient.LoginAs(srv, fmt.Sprintf("10.13.200.%d:1", i+1), "admin", "", fmt.Sprintf("Long%d", i))
			if err != nil {
				em.Emit(core.Result{Case: id, Verdict: core.Inconclusive, Msg: err.Error()})
				return
			}
			long = append(long, cl)
		}
		// idle residents: logged in once, never looked at again (their connections forget what they are sent), but
		// registered - and checked in the registry - throughout
		var resid []*refclient.Client
		for i := 0; i < a.Residents; i++ {
			cl, err := refclient.LoginAs(srv, fmt.Sprintf("10.13.%d.%d:1", 201+i/250, 1+i%250), "guest", "", fmt.Sprintf("Res%d", i))
			if err != nil {
				em.Emit(core.Result{Case: id, Verdict: core.Inconclusive, Msg: err.Error()})
				return
			}
			resid = append(resid, cl)
		}
		srv.Quiesce(refclient.Watchdog)
		for _, cl := range resid {
			cl.Conn.SetDiscardOutput(true)
		}
		rids := map[int]uint16{}
		ul, _ := long[0].Call(300)
		us, _ := refclient.UserList(ul)
		for _, u := range us {
			var k int
			if _, err := fmt.Sscanf(string(u.Name), "Long%d", &k); err == nil {
				ids[k] = u.ID
			}
			if _, err := fmt.Sscanf(string(u.Name), "Res%d", &k); err == nil {
				rids[k] = u.ID
			}
		}
		obs := map[string]int{}
		var total atomic.Int64
		checkpoints := 0
		violated := false
		fail := func(key, msg string) {
			if !violated {
				violated = true
				em.Emit(core.Result{Case: id, Class: "long-history", Verdict: core.Violated, Key: key, Msg: msg, Obs: obs})
			}
		}
		unsure := func(msg string) {
			if !violated {
				violated = true // stop the history; the result is "no verdict", not a violation
				em.Emit(core.Result{Case: id, Class: "long-history", Verdict: core.Inconclusive, Msg: msg, Obs: obs})
			}
		}
		checkpoint := func(label string) {
			checkpoints++
			srv.Quiesce(refclient.Watchdog)
			for _, cl := range long {
				cl.Drain()
			}
			// registry: every long-lived connection found under exactly one id, ids pairwise distinct
			reg := srv.S.ClientMgr.List()
			byConn := map[any][]uint16{}
			seen := map[uint16]bool{}
			for _, cc := range reg {
				idv := uint16(cc.ID[0])<<8 | uint16(cc.ID[1])
				if seen[idv] {
					fail("C13/long/duplicate-id", fmt.Sprintf("%s: id %d appears twice in the registry", label, idv))
				}
				seen[idv] = true
				byConn[cc.Connection] = append(byConn[cc.Connection], idv)
				// an id must address a live user: an entry whose connection handler has already returned can never be
				// removed any more (the removal is the handler's own deferred step)
				if tc, ok := cc.Connection.(*transport.Conn); ok && tc.HandlerDone() {
					fail("C13/long/id-of-a-departed-user", fmt.Sprintf("%s after %d connections: id %d is still registered (and listed) although its connection has ended and its handler has returned", label, total.Load(), idv))
					return
				}
			}
			for k, cl := range long {
				got := byConn[any(cl.Conn)]
				if len(got) != 1 {
					fail("C13/long/live-user-lost", fmt.Sprintf("%s after %d connections: long-lived client %d (id %d) is registered under ids %v — a newer connection took over its id", label, total.Load(), k, ids[k], got))
					return
				}
				if got[0] != ids[k] {
					fail("C13/long/id-changed", fmt.Sprintf("%s: long-lived client %d changed id %d -> %d", label, k, ids[k], got[0]))
					return
				}
			}
			for k, cl := range resid {
				got := byConn[any(cl.Conn)]
				if len(got) != 1 || got[0] != rids[k] {
					fail("C13/long/live-user-lost", fmt.Sprintf("%s after %d connections: idle resident %d (id %d) is registered under ids %v — a newer connection took over its id", label, total.Load(), k, rids[k], got))
					return
				}
			}
			obs["residents_checked"] += len(resid)
			// behaviourally: a private message to each long-lived id reaches exactly that client
			for k := range long {
				from := long[(k+1)%K]
				text := fmt.Sprintf("ping-%s-%d", label, k)
				if _, ok := from.Call(108, rc.F(103, rc.U16(int(ids[k]))), rc.F(113, rc.U16(1)), rc.FS(101, text)); !ok {
					if strings.HasPrefix(from.LastWhy, "watchdog") {
						// a wall-clock limit of the harness fired. Slow (loaded machine) = no verdict; wedged = the request is
						// still outstanding and the server raises no event at all for another 20 s
						if srv.NoProgressFor(20 * time.Second) {
							fail("C13/long/server-wedged", fmt.Sprintf("%s after %d connections: a long-lived client's request is outstanding and the server has made no progress at all for 20 s (%s); goroutines inside the server:\n%s", label, total.Load(), from.LastWhy, fixture.Stacks()))
							return
						}
						unsure(fmt.Sprintf("%s: %s", label, from.LastWhy))
						return
					}
					fail("C13/long/request-unanswered", fmt.Sprintf("%s: long-lived client's request is no longer answered on its own connection (%s)", label, from.LastWhy))
					return
				}
				srv.Quiesce(refclient.Watchdog)
				for j, cl := range long {
					n := 0
					for _, t := range cl.Drain() {
						if d, _ := t.Get(101); t.Type == 104 && string(d) == text {
							n++
						}
					}
					want := 0
					if j == k {
						want = 1
					}
					if n != want {
						fail("C13/long/misaddressed", fmt.Sprintf("%s after %d connections: private message to id %d (client %d) was received %d times by client %d", label, total.Load(), ids[k], k, n, j))
						return
					}
				}
				obs["targeted_messages"]++
			}
		}
		checkpoint("start")
		const width = 48
		batch := 5000
		for done := 0; done < a.Connections && !violated; done += batch {
			n := batch
			if done+n > a.Connections {
				n = a.Connections - done
			}
			var wg sync.WaitGroup
			var failed atomic.Int64
			per := (n + width - 1) / width
			for wkr := 0; wkr < width; wkr++ {
				wg.Add(1)
				go func(wkr int) {
					defer wg.Done()
					for i := 0; i < per; i++ {
						seq := done + wkr*per + i
						if wkr*per+i >= n {
							return
						}
						cl := refclient.Connect(srv, fmt.Sprintf("10.%d.%d.%d:7", 14+seq/65536, (seq/256)%256, seq%256))
						if failed.Load() > 24 {
							return // something is wrong: the batch is judged below
						}
						if cl.Handshake() != nil {
							failed.Add(1)
							continue
						}
						if rep, ok := cl.Login(refclient.LoginOpts{Login: "guest", Version: 190}); !ok || rep.Err != 0 {
							failed.Add(1)
						}
						cl.Hangup()
						total.Add(1)
					}
				}(wkr)
			}
			wg.Wait()
			obs["transient_login_failures"] += int(failed.Load())
			if failed.Load() > 24 && !violated {
				// many logins in a row got no answer within the watchdog: slow, or wedged?
				long[0].Send(500)
				if srv.NoProgressFor(20 * time.Second) {
					fail("C13/long/server-wedged", fmt.Sprintf("after %d connections: %d logins in a row were not answered, a keep-alive of a long-lived client is outstanding and the server has made no progress at all for 20 s; goroutines inside the server:\n%s", total.Load(), failed.Load(), fixture.Stacks()))
				} else {
					unsure(fmt.Sprintf("after %d connections: %d logins were not answered within the watchdog, but the server is making progress", total.Load(), failed.Load()))
				}
			}
			if violated {
				break
			}
			checkpoint(fmt.Sprintf("after-%d", done+n))
		}
		obs["connections"] = int(total.Load()) + K
		obs["checkpoints"] = checkpoints
		obs["id_space_wraps"] = (int(total.Load()) + K) / 65536
		if !violated {
			v := core.Held
			msg := ""
			if obs["transient_login_failures"] > a.Connections/100 {
				v, msg = core.Inconclusive, "too many transient login failures"
			}
			em.Emit(core.Result{Case: id, Class: "long-history", Verdict: v, Msg: msg, Obs: obs,
				Sample: map[string]any{"long_lived_clients": K, "connections": obs["connections"], "checkpoints": checkpoints, "wraps_crossed": obs["id_space_wraps"]}})
			// a second class so that the run is not judged on a single case
			em.Emit(core.Result{Case: id + "/registry", Class: "long-history-registry", Verdict: v, Obs: map[string]int{"registry_checks": checkpoints}})
		}
	})
}

// ---------------------------------------------------------------------------------------------
// stress: logins racing disconnects, with user-left notifications held in flight by a hook delay

func runStress(b core.Batch, em *core.Emitter) {
	var a struct {
		Runs int `json:"runs"`
	}
	json.Unmarshal(b.Args, &a)
	core.Parallel(a.Runs, 8, func(run int) {
		id := fmt.Sprintf("C13/stress/%d", run)
		core.SafeCase(em, id, func() {
			em.Begin(id, nil)
			r := core.NewRand(b.Seed, uint64(run), 0x13)
			srv, err := fixture.New(fixture.Options{})
			if err != nil {
				em.Emit(core.Result{Case: id, Verdict: core.Inconclusive, Msg: err.Error()})
				return
			}
			defer srv.Close()
			delay := time.Duration(50+r.Intn(400)) * time.Microsecond
			var dqMu sync.Mutex
			dequeued := map[[2]byte][]int{} // per client id: transaction types in the order processOutbox dequeued them
			srv.OnEvent = func(name string, cid [2]byte, x uint32) {
				if name != "outbox.dequeued" || x == fixture.MarkerType {
					return
				}
				dqMu.Lock()
				dequeued[cid] = append(dequeued[cid], int(x))
				dqMu.Unlock()
				if x == 302 {
					time.Sleep(delay)
				}
			}
			type poll struct {
				id uint32
				n  int // transactions this client had received when it sent the request
			}
			type sc struct {
				cl    *refclient.Client
				name  string
				polls []poll
			}
			var mu sync.Mutex
			var all []*sc
			login := func(name string, k int) *sc {
				cl, err := refclient.LoginAs(srv, fmt.Sprintf("10.13.77.%d:%d", 1+k%250, 1000+k), "guest", "", name)
				if err != nil {
					return nil
				}
				cl.Send(300) // fetch the list right away, as clients do
				s := &sc{cl: cl, name: name}
				mu.Lock()
				all = append(all, s)
				mu.Unlock()
				return s
			}
			n0 := 4 + r.Intn(5)
			var first []*sc
			for i := 0; i < n0; i++ {
				if s := login(fmt.Sprintf("base%d", i), i); s != nil {
					first = append(first, s)
				}
			}
			srv.Quiesce(refclient.Watchdog)
			rounds := 3 + r.Intn(4)
			gone := map[*sc]bool{}
			k := 100
			for round := 0; round < rounds; round++ {
				var wg sync.WaitGroup
				// some leave …
				mu.Lock()
				var leavers []*sc
				for _, s := range all {
					if !gone[s] && len(leavers) < 1+r.Intn(3) && r.Bool() {
						leavers = append(leavers, s)
						gone[s] = true
					}
				}
				mu.Unlock()
				for _, s := range leavers {
					wg.Add(1)
					go func(s *sc) { defer wg.Done(); s.cl.Hangup() }(s)
				}
				// … the others keep refreshing their user list, remembering what they had seen when they asked …
				mu.Lock()
				var pollers []*sc
				for _, s := range all {
					if !gone[s] {
						pollers = append(pollers, s)
					}
				}
				mu.Unlock()
				for pi, s := range pollers {
					wg.Add(1)
					go func(s *sc, d time.Duration) {
						defer wg.Done()
						for q := 0; q < 6; q++ {
							time.Sleep(d)
							n := len(s.cl.Inbox())
							s.polls = append(s.polls, poll{s.cl.Send(300), n})
						}
					}(s, time.Duration(100+((pi*37+round*11)%400))*time.Microsecond)
				}
				// … while others arrive
				for j := 0; j < 2+r.Intn(4); j++ {
					k++
					wg.Add(1)
					go func(k int, d time.Duration) {
						defer wg.Done()
						time.Sleep(d)
						login(fmt.Sprintf("new%d", k), k)
					}(k, time.Duration(r.Intn(600))*time.Microsecond)
				}
				wg.Wait()
			}
			if !srv.Quiesce(refclient.Watchdog) {
				em.Emit(core.Result{Case: id, Verdict: core.Inconclusive, Msg: "no quiescence"})
				return
			}
			res := core.Result{Case: id, Class: fmt.Sprintf("stress/rounds%d", rounds), Verdict: core.Held, Obs: map[string]int{"stress_runs": 1},
				Sample: map[string]any{"base_clients": n0, "rounds": rounds, "outbox_delay_us": delay.Microseconds()}}
			mu.Lock()
			defer mu.Unlock()
			idOf := map[any][2]byte{}
			for _, cc := range srv.S.ClientMgr.List() {
				idOf[cc.Connection] = cc.ID
			}
			for _, s := range all {
				if gone[s] || res.Verdict != core.Held {
					continue
				}
				// did this client receive its transactions in the order the server queued them?
				reordered := ""
				if cid, ok := idOf[any(s.cl.Conn)]; ok {
					dqMu.Lock()
					want := append([]int{}, dequeued[cid]...)
					dqMu.Unlock()
					var got []int
					for _, t := range s.cl.Inbox() {
						ty := int(t.Type)
						if t.IsReply == 1 {
							ty = 0
						}
						got = append(got, ty)
					}
					for i := 0; i < len(got) && i < len(want); i++ {
						if got[i] != want[i] {
							reordered = fmt.Sprintf("position %d: queued order has type %d, arrival order has type %d (queued %v, arrived %v)", i, want[i], got[i], want, got)
							res.Obs["clients_with_reordered_delivery"]++
							break
						}
					}
				}
				// causality: a list requested after this client had already received user-left(U) must not contain U
				inbox := s.cl.Inbox()
				for _, pl := range s.polls {
					left := map[uint16]bool{}
					for _, t := range inbox[:min(pl.n, len(inbox))] {
						if idb, _ := t.Get(103); len(idb) == 2 {
							uid := uint16(idb[0])<<8 | uint16(idb[1])
							if t.Type == 302 {
								left[uid] = true
							} else if t.Type == 301 {
								delete(left, uid)
							}
						}
					}
					for _, t := range inbox {
						if t.IsReply == 1 && t.ID == pl.id {
							us, _ := refclient.UserList(t)
							for _, u := range us {
								if left[u.ID] {
									res.Verdict, res.Key = core.Violated, "C13/stress/listed-after-left-notice"
									res.Msg = fmt.Sprintf("client %q had already received the user-left notice for user %d when it requested the user list, yet the reply still lists that user (%q)", s.name, u.ID, u.Name)
								}
							}
							res.Obs["stress_list_polls"]++
						}
					}
				}
				if res.Verdict != core.Held {
					break
				}
				// fold the whole inbox in arrival order: list replies replace, notifications patch
				roster := map[uint16]string{}
				lastNote := map[uint16]int{} // arrival index of the last notification about a user
				lastList := -1
				for i, t := range s.cl.Inbox() {
					switch {
					case t.IsReply == 1 && len(t.GetAll(300)) > 0:
						us, _ := refclient.UserList(t)
						roster = map[uint16]string{}
						for _, u := range us {
							roster[u.ID] = string(u.Name)
						}
						lastList = i
					case t.Type == 301:
						if idb, _ := t.Get(103); len(idb) == 2 {
							nm, _ := t.Get(102)
							uid := uint16(idb[0])<<8 | uint16(idb[1])
							roster[uid] = string(nm)
							lastNote[uid] = i
						}
						res.Obs["stress_notifications"]++
					case t.Type == 302:
						if idb, _ := t.Get(103); len(idb) == 2 {
							uid := uint16(idb[0])<<8 | uint16(idb[1])
							delete(roster, uid)
							lastNote[uid] = i
						}
						res.Obs["stress_notifications"]++
					}
				}
				rep, ok := s.cl.Call(300)
				if !ok {
					res.Verdict, res.Msg = core.Inconclusive, "no user list"
					break
				}
				us, _ := refclient.UserList(rep)
				fresh := map[uint16]string{}
				for _, u := range us {
					fresh[u.ID] = string(u.Name)
				}
				var bad []uint16
				for uid, nm := range roster {
					if f, ok := fresh[uid]; !ok || f != nm {
						bad = append(bad, uid)
					}
				}
				for uid := range fresh {
					if _, ok := roster[uid]; !ok {
						bad = append(bad, uid)
					}
				}
				for _, uid := range bad {
					note, noted := lastNote[uid]
					switch {
					case reordered != "":
						res.Verdict, res.Key = core.Violated, "C13/stress/roster-diverged-after-reordered-delivery"
						res.Msg = fmt.Sprintf("client %q: folded roster %v differs from the server's list %v (user %d); the transactions addressed to this client were delivered in a different order than the server queued them: %s", s.name, roster, fresh, uid, reordered)
					case noted && note < lastList:
						res.Verdict, res.Key = core.Violated, "C13/stress/stale-list-reply-after-notification"
						res.Msg = fmt.Sprintf("client %q: user %d is %q in the folded roster and %q on the server: the notification about that user's change was queued (arrival index %d) BEFORE a user-list reply (arrival index %d) that had been computed before the change — the stale list overwrote the newer information", s.name, uid, roster[uid], fresh[uid], note, lastList)
					case !noted:
						res.Verdict, res.Key = core.Violated, "C13/stress/never-notified"
						res.Msg = fmt.Sprintf("client %q: user %d is %q in the folded roster (from the list it fetched) and %q on the server, and no user-change/user-left notification about that user was ever delivered to it", s.name, uid, roster[uid], fresh[uid])
					default:
						res.Verdict, res.Key = core.Violated, "C13/stress/roster-differs"
						res.Msg = fmt.Sprintf("client %q: user %d is %q in the folded roster and %q on the server although the last notification about it arrived after the last list reply", s.name, uid, roster[uid], fresh[uid])
					}
				}
				res.Obs["stress_roster_comparisons"]++
			}
			em.Emit(res)
		})
	})
}

// runIdle: the idle timer marks users away (their idle counters are set 5 s short of the threshold, then the real
// keepaliveHandler runs one tick); afterwards, and again after everybody has become active again, every client's
// folded list must equal a fresh list, flags included - also the idle user's own entry.
func runIdle(b core.Batch, em *core.Emitter) {
	var a struct {
		Runs int `json:"runs"`
	}
	json.Unmarshal(b.Args, &a)
	core.Parallel(a.Runs, 8, func(run int) {
		(&core.Simple{Id: "C13", Case: func(c *core.Case) {
			r := c.R
			n := 3 + r.Intn(3)
			var accs []fixture.Account
			w := &world{c: c, kinds: map[string]int{}}
			for i := 0; i < n; i++ {
				accs = append(accs, fixture.Account{Login: fmt.Sprintf("u%d", i), Name: fmt.Sprintf("Account %d", i), Access: rc.Bitmap(9, 10, 11, 20, 26, 40)})
				w.users = append(w.users, &muser{idx: i, accName: fmt.Sprintf("Account %d", i)})
			}
			accs = append(accs, fixture.Account{Login: "guest", Name: "guest", Access: fixture.GuestBits()})
			srv, err := fixture.New(fixture.Options{Accounts: accs})
			if err != nil {
				c.Unsure("fixture: %v", err)
				return
			}
			defer srv.Close()
			w.srv = srv
			for _, u := range w.users {
				w.step++
				if !w.login(u, true) {
					return
				}
			}
			if !w.check() {
				return
			}
			for _, cc := range srv.S.ClientMgr.List() {
				cc.IdleTime = 295
			}
			ctx, cancel := context.WithCancel(context.Background())
			defer cancel()
			go srv.S.VerifKeepaliveHandler(ctx)
			time.Sleep(11 * time.Second)
			w.log = append(w.log, "the idle timer ticked: every user is marked away")
			w.step++
			c.Count("idle_transitions", n)
			if !w.check() { // fetching the list makes each user active again, one after the other
				return
			}
			w.step++
			if !w.check() {
				return
			}
			c.Describe(fmt.Sprintf("idle/n%d", n), map[string]any{"clients": n})
		}}).RunOne(b.Tier, b.Seed, 900000+run, em)
	})
}
