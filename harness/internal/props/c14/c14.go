// Package c14: each client receives whole, well-formed, correlated transactions.
package c14

import (
	"context"
	"fmt"
	"os"
	"path/filepath"
	"runtime"
	"strings"
	"sync"
	"sync/atomic"
	"time"

	"verifharness/internal/core"
	"verifharness/internal/fixture"
	"verifharness/internal/refclient"
	rc "verifharness/internal/refcodec"
)

func init() {
	core.Register(&core.Simple{
		Id: "C14", Lvl: "exploration", Quick: 24, Thorough: 600, PerBatch: 6, Width: 3, Race: true, Timeout: 1500,
		RuleText: "each case runs the real processOutbox and connection loops in a race-detector build with 4-24 clients (every third one sends handshake, login and its first four requests in a single write), each driven by 2-4 concurrent sender goroutines issuing 40-120 requests with large replies (message board of 20-60 KiB, file lists of 100-600 entries, user lists, news lists, file info) mixed with broadcast traffic (public chat, user-info changes, board posts); in every second run 1-3 further clients vanish mid-frame (their writes are cut short and then fail) while requesting large replies; in one run out of eight the idle timer marks every user away in the middle of the traffic; in another a client with a 16 KiB window stops reading for 6.5 s and then carries on; the client side of every connection records each Write call as one atomic chunk (TCP semantics) and yields or sleeps at random before recording, so writes of different transactions to one client can overlap; at hook-based quiescence the reference decoder re-frames every client's byte stream, a ledger checks that every reply carries the id of an unanswered request sent on that connection, and every always-answered request has exactly one reply. distinct = (clients, senders, board size class, observed multi-chunk frames > 0); non-trivial = run delivered at least one frame larger than the 32 KiB copy buffer",
		Case:     runCase,
	})
}

func init() {
	// a data race between two accesses made by the outbox machinery itself (processOutbox and the send goroutines
	// it starts) means writes to one client are not serialised: that is the mechanism C14 rests on
	core.RaceClassifier["C14"] = func(b core.Batch, r core.RaceReport) (bool, string) {
		n := 0
		for _, f := range r.Funcs {
			if strings.Contains(f, "processOutbox") || strings.Contains(f, "sendTransaction") {
				n++
			}
		}
		return n >= 2, "C14/data-race-in-outbox"
	}
}

var answered = map[int]bool{101: true, 200: true, 300: true, 370: true, 371: true, 500: true, 206: true, 103: true, 355: true}

func runCase(c *core.Case) {
	r := c.R
	nClients := 4 + r.Intn(21)
	senders := 2 + r.Intn(3)
	perSender := 40 + r.Intn(81)
	boardSize := 20000 + r.Intn(40000)
	nFiles := 100 + r.Intn(500)
	board := strings.Repeat("0123456789abcdef\r", boardSize/17)
	srv, err := fixture.New(fixture.Options{Board: board, NewsYAML: "Categories:\n  cat:\n    Type: [0, 3]\n    Name: cat\n    Articles: {}\n    SubCats: {}\n",
		Files: func(root string) {
			os.MkdirAll(filepath.Join(root, "many"), 0755)
			for i := 0; i < nFiles; i++ {
				os.WriteFile(filepath.Join(root, "many", fmt.Sprintf("file-%04d-%s.txt", i, strings.Repeat("n", i%40))), []byte("x"), 0644)
			}
		}})
	if err != nil {
		c.Unsure("fixture: %v", err)
		return
	}
	defer srv.Close()
	var clients []*refclient.Client
	pipelined := map[int]map[uint32]int{} // requests sent in the same segment as handshake and login
	for i := 0; i < nClients; i++ {
		if i%3 == 2 {
			// this client does not wait for the login reply: handshake, login and its first requests leave in one write
			cl := refclient.Connect(srv, fmt.Sprintf("10.14.0.%d:1", i+1))
			buf := rc.Handshake()
			login := rc.Tran{Type: 107, ID: cl.NewID(), Fields: []rc.Field{rc.F(105, rc.Obfuscate([]byte("admin"))), rc.F(106, nil), rc.FS(102, fmt.Sprintf("C%d", i)), rc.F(104, rc.U16(1)), rc.F(160, rc.U16(190))}}
			buf = append(buf, login.Encode()...)
			pipelined[i] = map[uint32]int{}
			for _, typ := range []int{500, 300, 101, 500} {
				t := rc.Tran{Type: uint16(typ), ID: cl.NewID()}
				pipelined[i][t.ID] = typ
				buf = append(buf, t.Encode()...)
			}
			cl.SendRaw(buf)
			cl.SkipHandshakeReply()
			clients = append(clients, cl)
			c.Count("clients_pipelining_behind_the_login", 1)
			continue
		}
		cl, err := refclient.LoginAs(srv, fmt.Sprintf("10.14.0.%d:1", i+1), "admin", "", fmt.Sprintf("C%d", i))
		if err != nil {
			c.Unsure("login: %v", err)
			return
		}
		clients = append(clients, cl)
	}
	// in half of the runs 1-3 further clients vanish in the middle of a frame: after a seeded number of bytes every
	// Write to them is cut short and fails. Their own streams are not judged; everybody else's must be unaffected.
	var flaky []*refclient.Client
	if c.Index%2 == 1 {
		for i := 0; i < 1+r.Intn(3); i++ {
			cl, err := refclient.LoginAs(srv, fmt.Sprintf("10.14.1.%d:1", i+1), "admin", "", fmt.Sprintf("F%d", i))
			if err != nil {
				c.Unsure("login: %v", err)
				return
			}
			flaky = append(flaky, cl)
		}
	}
	srv.Quiesce(refclient.Watchdog)
	for _, cl := range flaky {
		cl.Conn.SetWriteLimit(1 + r.Intn(150000))
	}
	c.Count("clients_vanishing_mid_frame", len(flaky))
	// in one run out of eight the idle timer is running and every user is 5 s short of being marked away: the away
	// notifications (and the "back again" ones that the users' next requests cause) go out in the middle of the traffic
	idleRun := c.Index%8 == 3
	var idleStart time.Time
	if idleRun {
		for _, cc := range srv.S.ClientMgr.List() {
			// only the two clients that stay silent: nothing else touches their idle counters until the timer does
			if strings.HasPrefix(cc.RemoteAddr, "10.14.0.1:") || strings.HasPrefix(cc.RemoteAddr, "10.14.0.2:") {
				cc.IdleTime = 295
			}
		}
		ctx, cancel := context.WithCancel(context.Background())
		defer cancel()
		go srv.S.VerifKeepaliveHandler(ctx)
		idleStart = time.Now()
		c.Count("runs_with_users_going_away", 1)
	}
	// in one run out of eight the first client has a small receive window and stops reading for 6.5 s in the middle of
	// the run, then carries on: the server's writes to it block meanwhile (nothing is lost, nothing is cut)
	if c.Index%8 == 5 {
		stall := clients[0]
		stall.Conn.Backpressure = 16 << 10
		stopRead := make(chan struct{})
		defer close(stopRead)
		go func() {
			buf := make([]byte, 8192)
			got, paused := 0, false
			for {
				select {
				case <-stopRead:
					return
				default:
				}
				if !paused && got > 150000 { // well into the run, most likely in the middle of a large reply
					time.Sleep(6500 * time.Millisecond)
					paused = true
				}
				n, _ := stall.Conn.ClientRead(buf[:1+got%len(buf)], 20*time.Millisecond, nil)
				got += n
			}
		}()
		c.Count("clients_that_stop_reading_for_6.5s", 1)
	}
	// from now on every server-side Write to a client yields or sleeps first, so that the per-transaction
	// sender goroutines really overlap
	var hookSeed atomic.Uint64
	hookSeed.Store(uint64(c.Seed)*7919 + uint64(c.Index))
	for _, cl := range clients {
		cl.Conn.WriteHook = func(n int) {
			x := hookSeed.Add(0x9E3779B97F4A7C15)
			switch (x >> 33) % 8 {
			case 0, 1, 2:
				runtime.Gosched()
			case 3:
				time.Sleep(time.Duration((x>>40)%200) * time.Microsecond)
			case 4:
				time.Sleep(time.Duration((x>>40)%30) * time.Microsecond)
			}
		}
	}
	type sent struct {
		typ int
	}
	ledgers := make([]map[uint32]sent, nClients)
	var lmu sync.Mutex
	for i := range ledgers {
		ledgers[i] = map[uint32]sent{}
		for id, typ := range pipelined[i] {
			ledgers[i][id] = sent{typ}
		}
	}
	var posts atomic.Int64
	var wg sync.WaitGroup
	for fi, cl := range flaky {
		wg.Add(1)
		go func(fi int, cl *refclient.Client) {
			defer wg.Done()
			rr := core.NewRand(c.Seed, uint64(c.Index), 0xF1A, uint64(fi))
			for k := 0; k < perSender; k++ {
				typ, fs := 101, []rc.Field(nil)
				if rr.Bool() {
					typ, fs = 200, []rc.Field{rc.F(202, rc.PathS("many"))}
				}
				cl.SendRaw(rc.Tran{Type: uint16(typ), ID: cl.NewID(), Fields: fs}.Encode())
				if rr.Chance(1, 3) {
					runtime.Gosched()
				}
			}
		}(fi, cl)
	}
	for ci, cl := range clients {
		if idleRun && ci < 2 {
			continue // these two (the lowest user ids) stay silent, so that the idle timer really marks them away
		}
		for s := 0; s < senders; s++ {
			wg.Add(1)
			go func(ci, s int, cl *refclient.Client) {
				defer wg.Done()
				rr := core.NewRand(c.Seed, uint64(c.Index), uint64(ci), uint64(s))
				for k := 0; k < perSender; k++ {
					var typ int
					var fs []rc.Field
					switch rr.Intn(12) {
					case 0, 1, 2:
						typ = 101
					case 3, 4:
						typ, fs = 200, []rc.Field{rc.F(202, rc.PathS("many"))}
					case 5:
						typ = 300
					case 6:
						typ, fs = 371, []rc.Field{rc.F(325, rc.PathS("cat"))}
					case 7:
						typ = 500
					case 8:
						typ, fs = 105, []rc.Field{rc.FS(101, fmt.Sprintf("chat-%d-%d-%d", ci, s, k))}
					case 9:
						typ, fs = 304, []rc.Field{rc.FS(102, fmt.Sprintf("C%d-%d", ci, k)), rc.F(104, rc.U16(k))}
					case 10:
						if posts.Add(1) <= 20 {
							typ, fs = 103, []rc.Field{rc.FS(101, fmt.Sprintf("post-%d-%d-%d", ci, s, k))}
						} else {
							typ = 370
						}
					case 11:
						typ, fs = 206, []rc.Field{rc.FS(201, "file-0001-n.txt"), rc.F(202, rc.PathS("many"))}
					}
					id := cl.NewID()
					lmu.Lock()
					ledgers[ci][id] = sent{typ}
					lmu.Unlock()
					cl.SendRaw(rc.Tran{Type: uint16(typ), ID: id, Fields: fs}.Encode())
					if rr.Chance(1, 4) {
						runtime.Gosched()
					}
				}
			}(ci, s, cl)
		}
	}
	wg.Wait()
	if idleRun {
		// wait for the idle timer's first tick (10 s), then every client sends one more keep-alive and one more request
		if d := 11*time.Second - time.Since(idleStart); d > 0 {
			time.Sleep(d)
		}
		for ci, cl := range clients {
			for _, typ := range []int{500, 300} {
				id := cl.NewID()
				lmu.Lock()
				ledgers[ci][id] = sent{typ}
				lmu.Unlock()
				cl.SendRaw(rc.Tran{Type: uint16(typ), ID: id}.Encode())
			}
		}
		deadline := time.Now().Add(refclient.Watchdog)
		for ci, cl := range clients {
			for {
				answered := 0
				for _, t := range cl.Inbox() {
					if s, ok := ledgers[ci][t.ID]; ok && t.IsReply == 1 && (s.typ == 500 || s.typ == 300) {
						answered++
					}
				}
				if answered >= 2 || cl.FrameErr != nil {
					break
				}
				if time.Now().After(deadline) {
					c.Fail("C14/request-unanswered", "client %d: after the users had been marked away by the idle timer, a keep-alive and a user-list request were not answered within %v", ci, refclient.Watchdog)
					return
				}
				time.Sleep(time.Millisecond)
			}
		}
	}
	if !srv.Quiesce(4 * refclient.Watchdog) {
		c.Unsure("no quiescence")
		return
	}
	large, multi, frames := 0, 0, 0
	for ci, cl := range clients {
		inbox := cl.Inbox()
		frames += len(inbox)
		if cl.FrameErr != nil {
			c.Fail("C14/stream-not-reframable", "client %d of %d (%d senders each): the byte stream written by the server stops being a concatenation of well-formed transactions: %v (after %d good frames; %d unframed bytes)", ci, nClients, senders, cl.FrameErr, len(inbox), cl.Unframed())
			break
		}
		if n := cl.Unframed(); n != 0 {
			c.Fail("C14/stream-truncated", "client %d: %d trailing bytes at quiescence do not form a complete transaction", ci, n)
			break
		}
		seen := map[uint32]int{}
		for _, t := range inbox {
			sz := len(t.Encode())
			if sz > 32768 {
				large++
			}
			if t.IsReply != 1 {
				continue
			}
			s, ok := ledgers[ci][t.ID]
			if !ok {
				if t.ID == 1 { // the login reply
					continue
				}
				c.Fail("C14/reply-misdirected", "client %d received a reply with id %08x which it never sent (%v)", ci, t.ID, t)
				break
			}
			seen[t.ID]++
			if seen[t.ID] > 1 {
				c.Fail("C14/reply-duplicated", "client %d received %d replies to request %08x (type %d)", ci, seen[t.ID], t.ID, s.typ)
				break
			}
		}
		for id, s := range ledgers[ci] {
			if answered[s.typ] && seen[id] != 1 {
				c.Fail("C14/request-unanswered", "client %d: request %08x of type %d (answered when issued alone) got %d replies under load", ci, id, s.typ, seen[id])
				break
			}
		}
		// count frames that were written in several chunks (frames above the 32 KiB copy buffer)
		for _, ch := range cl.Conn.Chunks() {
			if len(ch.Data) == 32768 {
				multi++
			}
		}
	}
	c.Count("frames_received", frames)
	c.Count("frames_over_32KiB", large)
	c.Count("full_32KiB_chunks", multi)
	c.Count("requests_sent", nClients*senders*perSender)
	class := ""
	if large > 0 {
		class = fmt.Sprintf("c%d/s%d/board%dK/multi=%v", nClients/6, senders, boardSize/10000*10, multi > 0)
	}
	c.Describe(class, map[string]any{"clients": nClients, "senders_per_client": senders, "requests_per_sender": perSender, "board_bytes": len(board), "files_listed": nFiles, "frames_over_32KiB": large})
}
