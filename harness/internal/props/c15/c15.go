// Package c15: accounts — what can log in = what is listed = what is on disk.
package c15

import (
	"bytes"
	"encoding/json"
	"fmt"
	"github.com/jhalter/mobius/hotline"
	"os"
	"path/filepath"
	"sort"
	"strings"
	"sync"

	"github.com/jhalter/mobius/verifshim"
	"golang.org/x/crypto/bcrypt"
	"gopkg.in/yaml.v3"

	"verifharness/internal/core"
	"verifharness/internal/fixture"
	"verifharness/internal/refclient"
	rc "verifharness/internal/refcodec"
)

func init() {
	core.Register(&core.Simple{
		Id: "C15", Lvl: "exploration", Quick: 160, Thorough: 4000, PerBatch: 40, Width: 16, Timeout: 1500,
		RuleText: "each case is a history of 12-25 account-management requests sent by an administrator through the real connection loop (new-user, set-user, delete-user, update-user batches mixing create/modify/rename/delete; logins, names and passwords drawn from byte strings that are legal file names incl. spaces, YAML-significant text, leading/trailing blanks, high bytes, names up to 255 bytes, passwords up to bcrypt's 72 bytes, logins up to the 250 bytes for which '<login>.yaml' is still a legal file name; password field = new / one-zero-byte 'unchanged' marker / absent); after every step a reference model is compared with (1) login attempts for every login ever used with its current and formerly used passwords, (2) list-users and get-user replies, (3) the parsed account files, (4) a second account manager loaded from the directory. a stress batch lets five administrators create the same fresh login at the same moment (exactly one may win, and memory, file and restart must show the winner's data), then two administrators edit an account while a third deletes it (memory, file and restart must agree on whether it exists and on its name). distinct = (multiset of operation kinds in the history); non-trivial = history contains a rename, delete or password change",
		Case:     runCase,
		Extra: func(tier string, seed int64) []core.Batch {
			n := 40
			if tier == "thorough" {
				n = 800
			}
			a, _ := json.Marshal(map[string]int{"rounds": n})
			return []core.Batch{{Name: "concurrent-create", Args: a, Timeout: 1200}}
		},
		RunExtra: runConcurrent,
	})
}

// runConcurrent: several administrators create the SAME fresh login at the same moment with different names and
// passwords. Exactly one request may succeed, and that winner's name and password must be what can log in, what is
// listed, what the file holds and what a restart yields.
func runConcurrent(b core.Batch, em *core.Emitter) {
	var a struct {
		Rounds int `json:"rounds"`
	}
	json.Unmarshal(b.Args, &a)
	id := "C15/concurrent-create"
	core.SafeCase(em, id, func() {
		em.Begin(id, nil)
		srv, err := fixture.New(fixture.Options{})
		if err != nil {
			em.Emit(core.Result{Case: id, Verdict: core.Inconclusive, Msg: err.Error()})
			return
		}
		defer srv.Close()
		const k = 5
		var admins []*refclient.Client
		for i := 0; i < k; i++ {
			cl, err := refclient.LoginAs(srv, fmt.Sprintf("10.15.200.%d:1", i+1), "admin", "", fmt.Sprintf("Adm%d", i))
			if err != nil {
				em.Emit(core.Result{Case: id, Verdict: core.Inconclusive, Msg: err.Error()})
				return
			}
			admins = append(admins, cl)
		}
		res := core.Result{Case: id, Class: "concurrent-create", Verdict: core.Held, Obs: map[string]int{}, Sample: map[string]any{"administrators": k, "rounds": a.Rounds}}
		dir := filepath.Join(srv.ConfigDir, "Users")
		for round := 0; round < a.Rounds && res.Verdict == core.Held; round++ {
			login := fmt.Sprintf("race%04d", round)
			okc := make([]bool, k)
			var wg sync.WaitGroup
			start := make(chan struct{})
			for i := 0; i < k; i++ {
				wg.Add(1)
				go func(i int) {
					defer wg.Done()
					<-start
					rep, ok := admins[i].CallDirect(350, rc.F(105, rc.Obfuscate([]byte(login))), rc.FS(102, fmt.Sprintf("name-of-%d", i)), rc.F(106, rc.Obfuscate([]byte(fmt.Sprintf("pw-of-%d", i)))), rc.F(110, rc.Bitmap(2, 9)))
					okc[i] = ok && rep.Err == 0
				}(i)
			}
			close(start)
			wg.Wait()
			winners := []int{}
			for i, o := range okc {
				if o {
					winners = append(winners, i)
				}
			}
			res.Obs["concurrent_create_rounds"]++
			if len(winners) != 1 {
				res.Verdict, res.Key = core.Violated, "C15/concurrent-create/winners"
				res.Msg = fmt.Sprintf("round %d: %d of %d concurrent creations of login %q were acknowledged as successful", round, len(winners), k, login)
				break
			}
			wn := winners[0]
			acc := srv.S.AccountManager.Get(login)
			raw, _ := os.ReadFile(filepath.Join(dir, login+".yaml"))
			var doc struct {
				Name     string `yaml:"Name"`
				Password string `yaml:"Password"`
			}
			yaml.Unmarshal(raw, &doc)
			wantName, wantPW := fmt.Sprintf("name-of-%d", wn), fmt.Sprintf("pw-of-%d", wn)
			memOK := acc != nil && acc.Name == wantName && bcrypt.CompareHashAndPassword([]byte(acc.Password), rc.Obfuscate([]byte(wantPW))) == nil
			diskOK := doc.Name == wantName && bcrypt.CompareHashAndPassword([]byte(doc.Password), rc.Obfuscate([]byte(wantPW))) == nil
			if !memOK || !diskOK {
				res.Verdict, res.Key = core.Violated, "C15/concurrent-create/winner-differs"
				res.Msg = fmt.Sprintf("round %d: administrator %d's creation of %q was acknowledged; in memory the account matches it: %v; the account file matches it: %v (file name field %q)", round, wn, login, memOK, diskOK, doc.Name)
			}
		}
		// second phase: two administrators edit an account while a third deletes it, all at the same moment. Whatever the
		// order, afterwards the account exists in memory iff its file exists iff a restart yields it, with the same name.
		for round := 0; round < a.Rounds && res.Verdict == core.Held; round++ {
			login := fmt.Sprintf("edited%04d", round)
			if rep, ok := admins[0].Call(350, rc.F(105, rc.Obfuscate([]byte(login))), rc.FS(102, "original"), rc.F(106, rc.Obfuscate([]byte("pw"))), rc.F(110, rc.Bitmap(2, 9))); !ok || rep.Err != 0 {
				continue
			}
			var wg sync.WaitGroup
			start := make(chan struct{})
			for i := 0; i < 3; i++ {
				wg.Add(1)
				go func(i int) {
					defer wg.Done()
					<-start
					if i == 2 {
						admins[i].CallDirect(351, rc.F(105, rc.Obfuscate([]byte(login))))
						return
					}
					admins[i].CallDirect(353, rc.F(105, rc.Obfuscate([]byte(login))), rc.FS(102, fmt.Sprintf("edited-by-%d-%s", i, strings.Repeat("x", 3000))), rc.F(106, []byte{0}), rc.F(110, rc.Bitmap(2, 9, 10)))
				}(i)
			}
			close(start)
			wg.Wait()
			srv.Quiesce(refclient.Watchdog)
			res.Obs["concurrent_edit_delete_rounds"]++
			mem := srv.S.AccountManager.Get(login)
			_, statErr := os.Stat(filepath.Join(dir, login+".yaml"))
			onDisk := statErr == nil
			var fresh *hotline.Account
			if m2, err := verifshim.NewYAMLAccountManager(dir); err == nil {
				fresh = m2.Get(login)
			}
			if (mem != nil) != onDisk || (mem != nil) != (fresh != nil) || (mem != nil && fresh != nil && mem.Name != fresh.Name) {
				res.Verdict, res.Key = core.Violated, "C15/concurrent-edit-delete/views-differ"
				name := func(a *hotline.Account) string {
					if a == nil {
						return "<absent>"
					}
					if len(a.Name) > 20 {
						return a.Name[:20]
					}
					return a.Name
				}
				res.Msg = fmt.Sprintf("round %d: two set-user requests and a delete-user for %q were sent at the same moment; afterwards the running server has the account: %v (name %q), its file exists: %v, a restart yields it: %v (name %q)", round, login, mem != nil, name(mem), onDisk, fresh != nil, name(fresh))
			}
		}
		if res.Verdict == core.Held {
			if m2, err := verifshim.NewYAMLAccountManager(dir); err != nil {
				res.Verdict, res.Key, res.Msg = core.Violated, "C15/concurrent-create/restart", "restart after concurrent creations: "+err.Error()
			} else if len(m2.List()) != len(srv.S.AccountManager.List()) {
				res.Verdict, res.Key, res.Msg = core.Violated, "C15/concurrent-create/restart", fmt.Sprintf("restart yields %d accounts, the running server has %d", len(m2.List()), len(srv.S.AccountManager.List()))
			}
		}
		em.Emit(res)
		em.Emit(core.Result{Case: id + "/rounds", Class: "concurrent-create-rounds", Verdict: core.Held})
	})
}

type macc struct {
	name   string
	access []byte
	pw     string
}

type world struct {
	c      *core.Case
	srv    *fixture.Server
	adm    *refclient.Client
	model  map[string]*macc
	everPW map[string][]string // login -> passwords ever used (clear)
	ever   []string            // logins ever used
	step   int
	log    []string
	kinds  map[string]int
	nAddr  int
}

var trickyNames = []string{"true", "~", "null", "a: b", "#x", " lead", "trail ", "- item", "{a}", "[b]", "'q'", "\"dq\"", "0123", "1e3", "yes", "multi word login", "é-accent", "tab\there", "%pct", "*star", "&amp", "!bang", "|pipe", ">gt", "@at", "`bt",
	// shapes that mean something to code handling file names: hidden files, extensions, temporary-file look-alikes
	".ops", ".hidden login", "...", "..x", "x.yaml", "y.yaml.tmp", ".account-1.tmp", "dot.", "-dash", "~tilde", "z.YAML", "a.b.c"}

func genName(r *core.Rand, maxLen int) string {
	switch r.Intn(6) {
	case 0:
		return core.Pick(r, trickyNames)
	case 1:
		// high bytes (Mac-Roman), not valid UTF-8
		n := 1 + r.Intn(10)
		b := make([]byte, n)
		for i := range b {
			b[i] = byte(0x80 + r.Intn(0x7f))
		}
		return "hb" + string(b)
	case 2:
		n := 1 + r.Intn(maxLen)
		return strings.TrimSpace(string(r.Printable(n))) + "x"
	default:
		return string(r.Printable(1+r.Intn(12))) + fmt.Sprint(r.Intn(1000))
	}
}

// genUserName: display names up to 255 bytes (together with a long login the account's list entry exceeds 512 bytes).
func (w *world) genUserName() string {
	r := w.c.R
	if r.Chance(1, 6) {
		return string(r.Printable(200+r.Intn(56))) + "n"
	}
	return genName(r, 60)
}

func (w *world) freshLogin() string {
	for {
		l := genName(w.c.R, 180)
		if w.c.R.Chance(1, 7) {
			// the longest logins whose account file name "<login>.yaml" is still a legal file name (255 bytes)
			n := core.Pick(w.c.R, []int{238, 244, 245, 246, 247, 248, 249, 250})
			l = strings.TrimSpace(string(w.c.R.Printable(n-1))) + "x"
			for len(l) < n {
				l = "p" + l
			}
		}
		if strings.ContainsAny(l, "/\x00") || l == "." || l == ".." || len(l) > 250 {
			continue
		}
		taken := false
		for _, e := range w.ever {
			// avoid names that differ only by case: the host filesystem might fold them
			if strings.EqualFold(e, l) {
				taken = true
			}
		}
		if !taken {
			w.ever = append(w.ever, l)
			return l
		}
	}
}

func (w *world) genPW() string {
	r := w.c.R
	if r.Chance(1, 10) {
		// the longest passwords bcrypt takes: 70, 71 and exactly 72 bytes
		return "L" + string(r.Printable(core.Pick(r, []int{69, 70, 71, 71})))
	}
	switch r.Intn(6) {
	case 0:
		return ""
	case 5:
		// clear text starting with 0xFF: its transmitted (obfuscated) form starts with a zero byte, like the
		// one-byte "unchanged" marker, but is a real password
		return "\xff" + string(r.Printable(1+r.Intn(12)))
	case 1:
		b := r.Bytes(1 + r.Intn(30))
		for i := range b {
			if b[i] == 0xFF || b[i] == 0 {
				b[i] = 'q'
			}
		}
		return "p" + string(b)
	default:
		return "pw-" + string(r.Printable(1+r.Intn(20)))
	}
}

// genAccess draws a bitmap inside the administrator's own privileges (creation is otherwise refused, C06).
func (w *world) genAccess() []byte {
	b := w.c.R.Bytes(8)
	adm := w.model["admin"].access
	for i := range b {
		b[i] &= adm[i]
	}
	return b
}

func (w *world) existing() []string {
	var ls []string
	for l := range w.model {
		if l != "admin" && l != "guest" {
			ls = append(ls, l)
		}
	}
	sort.Strings(ls)
	return ls
}

func (w *world) notePW(login, pw string) {
	for _, p := range w.everPW[login] {
		if p == pw {
			return
		}
	}
	w.everPW[login] = append(w.everPW[login], pw)
}

// pwField renders the password field for a mode: "absent", "unchanged", "new".
func pwField(mode, pw string) []rc.Field {
	switch mode {
	case "absent":
		return nil
	case "unchanged":
		return []rc.Field{rc.F(106, []byte{0})}
	}
	return []rc.Field{rc.F(106, rc.Obfuscate([]byte(pw)))}
}

func (w *world) applyPW(a *macc, login, mode, pw string) {
	switch mode {
	case "absent":
		a.pw = ""
	case "new":
		a.pw = pw
	}
	w.notePW(login, a.pw)
}

func (w *world) pickMode() (string, string) {
	switch w.c.R.Intn(3) {
	case 0:
		return "absent", ""
	case 1:
		return "unchanged", ""
	}
	pw := w.genPW()
	if pw == "" {
		return "absent", ""
	}
	return "new", pw
}

func (w *world) doStep() bool {
	r := w.c.R
	ex := w.existing()
	kind := core.Pick(r, []string{"new-user", "new-user", "set-user", "set-user", "delete-user", "update-batch", "update-batch", "update-batch", "new-user-existing", "set-user-missing"})
	if len(ex) == 0 {
		kind = "new-user"
	}
	w.kinds[kind]++
	switch kind {
	case "new-user":
		l, name, pw, acc := w.freshLogin(), w.genUserName(), w.genPW(), w.genAccess()
		fs := []rc.Field{rc.F(105, rc.Obfuscate([]byte(l))), rc.FS(102, name), rc.F(110, acc)}
		if pw != "" || r.Bool() {
			fs = append(fs, rc.F(106, rc.Obfuscate([]byte(pw))))
		}
		rep, ok := w.adm.Call(350, fs...)
		w.log = append(w.log, fmt.Sprintf("new-user %q name=%q pw=%q access=%x -> %v", l, name, pw, acc, rep))
		if !ok || rep.Err != 0 {
			w.c.Fail("C15/new-user/refused", "step %d: new-user for a fresh login %q was refused: %v\nhistory:\n%s", w.step, l, rep, w.hist())
			return false
		}
		w.model[l] = &macc{name, acc, pw}
		w.notePW(l, pw)
		if r.Chance(1, 3) {
			// a session of the new account stays connected while the account is later edited, renamed or deleted (the
			// server then messages and disconnects it from a delayed goroutine)
			w.nAddr++
			if cl, err := refclient.LoginAs(w.srv, fmt.Sprintf("10.15.%d.%d:77", w.nAddr/250, 1+w.nAddr%250), l, pw, "Resident"); err == nil {
				w.c.Count("resident_sessions", 1)
				_ = cl
			}
		}
	case "new-user-existing":
		l := core.Pick(r, ex)
		rep, ok := w.adm.Call(350, rc.F(105, rc.Obfuscate([]byte(l))), rc.FS(102, "usurper"), rc.F(110, make([]byte, 8)), rc.F(106, rc.Obfuscate([]byte("usurp"))))
		w.log = append(w.log, fmt.Sprintf("new-user (existing) %q -> %v", l, rep))
		w.notePW(l, "usurp")
		if ok && rep.Err == 0 {
			w.c.Fail("C15/new-user/overwrote-existing", "step %d: new-user for existing login %q succeeded\nhistory:\n%s", w.step, l, w.hist())
			return false
		}
	case "set-user":
		l := core.Pick(r, ex)
		name, acc := w.genUserName(), w.genAccess()
		mode, pw := w.pickMode()
		fs := append([]rc.Field{rc.F(105, rc.Obfuscate([]byte(l))), rc.FS(102, name), rc.F(110, acc)}, pwField(mode, pw)...)
		rep, ok := w.adm.Call(353, fs...)
		w.log = append(w.log, fmt.Sprintf("set-user %q name=%q pw=%s:%q access=%x -> %v", l, name, mode, pw, acc, rep))
		if !ok || rep.Err != 0 {
			w.c.Fail("C15/set-user/refused", "step %d: set-user for existing login %q refused: %v\nhistory:\n%s", w.step, l, rep, w.hist())
			return false
		}
		a := w.model[l]
		a.name, a.access = name, acc
		w.applyPW(a, l, mode, pw)
	case "set-user-missing":
		l := "missing-" + string(r.Printable(5))
		rep, _ := w.adm.Call(353, rc.F(105, rc.Obfuscate([]byte(l))), rc.FS(102, "x"), rc.F(110, make([]byte, 8)))
		w.log = append(w.log, fmt.Sprintf("set-user (missing) %q -> %v", l, rep))
		w.ever = append(w.ever, l)
		w.notePW(l, "")
	case "delete-user":
		l := core.Pick(r, ex)
		rep, ok := w.adm.Call(351, rc.F(105, rc.Obfuscate([]byte(l))))
		w.log = append(w.log, fmt.Sprintf("delete-user %q -> %v", l, rep))
		if !ok || rep.Err != 0 {
			w.c.Fail("C15/delete-user/refused", "step %d: delete-user %q refused: %v\nhistory:\n%s", w.step, l, rep, w.hist())
			return false
		}
		delete(w.model, l)
	case "update-batch":
		n := 1 + r.Intn(4)
		var recs []rc.Field
		var desc []string
		touched := map[string]bool{}
		avail := append([]string{}, ex...)
		for i := 0; i < n; i++ {
			sub := core.Pick(r, []string{"create", "modify", "rename", "delete"})
			if len(avail) == 0 {
				sub = "create"
			}
			w.kinds["batch-"+sub]++
			switch sub {
			case "create":
				l, name, pw, acc := w.freshLogin(), w.genUserName(), w.genPW(), w.genAccess()
				recs = append(recs, rc.F(101, rc.SubFields(rc.F(105, rc.Obfuscate([]byte(l))), rc.FS(102, name), rc.F(106, rc.Obfuscate([]byte(pw))), rc.F(110, acc))))
				w.model[l] = &macc{name, acc, pw}
				w.notePW(l, pw)
				desc = append(desc, fmt.Sprintf("create %q name=%q pw=%q access=%x", l, name, pw, acc))
			case "modify", "rename":
				k := r.Intn(len(avail))
				l := avail[k]
				avail = append(avail[:k], avail[k+1:]...)
				if touched[l] {
					continue
				}
				touched[l] = true
				a := w.model[l]
				name := w.genUserName()
				mode, pw := w.pickMode()
				target := l
				fs := []rc.Field{}
				if sub == "rename" {
					target = w.freshLogin()
					fs = append(fs, rc.F(101, rc.Obfuscate([]byte(l))))
				}
				fs = append(fs, rc.F(105, rc.Obfuscate([]byte(target))), rc.FS(102, name))
				fs = append(fs, pwField(mode, pw)...)
				if r.Bool() {
					a.access = w.genAccess()
					fs = append(fs, rc.F(110, a.access))
				}
				a.name = name
				w.applyPW(a, l, mode, pw)
				if target != l {
					delete(w.model, l)
					w.model[target] = a
					w.notePW(target, a.pw)
					for _, p := range w.everPW[l] {
						w.notePW(target, p)
					}
				}
				recs = append(recs, rc.F(101, rc.SubFields(fs...)))
				desc = append(desc, fmt.Sprintf("%s %q->%q name=%q pw=%s:%q", sub, l, target, name, mode, pw))
			case "delete":
				k := r.Intn(len(avail))
				l := avail[k]
				avail = append(avail[:k], avail[k+1:]...)
				if touched[l] {
					continue
				}
				touched[l] = true
				recs = append(recs, rc.F(101, rc.SubFields(rc.F(101, rc.Obfuscate([]byte(l))))))
				delete(w.model, l)
				desc = append(desc, fmt.Sprintf("delete %q", l))
			}
		}
		rep, ok := w.adm.Call(349, recs...)
		w.log = append(w.log, fmt.Sprintf("update-user [%s] -> %v", strings.Join(desc, "; "), rep))
		if !ok || rep.Err != 0 {
			w.c.Fail("C15/update-user/refused", "step %d: update-user batch refused: %v\nhistory:\n%s", w.step, rep, w.hist())
			return false
		}
	}
	return true
}

func (w *world) hist() string {
	s := strings.Join(w.log, "\n")
	if len(s) > 6000 {
		s = "…" + s[len(s)-6000:]
	}
	return s
}

func (w *world) tryLogin(login, pw string) (bool, error) {
	w.nAddr++
	cl := refclient.Connect(w.srv, fmt.Sprintf("10.15.%d.%d:99", w.nAddr/250, 1+w.nAddr%250))
	if err := cl.Handshake(); err != nil {
		return false, err
	}
	rep, ok := cl.Login(refclient.LoginOpts{Login: login, Password: pw, Version: 190})
	if !ok {
		return false, fmt.Errorf("no reply to login")
	}
	success := rep.Err == 0
	cl.Hangup()
	return success, nil
}

func (w *world) check() bool {
	c := w.c
	// (1) login attempts
	for _, l := range w.ever {
		a := w.model[l]
		pws := append([]string{}, w.everPW[l]...)
		if len(pws) > 3 {
			pws = pws[len(pws)-3:]
		}
		if a != nil {
			pws = append(pws, a.pw)
		}
		pws = append(pws, "never-used-"+l)
		seen := map[string]bool{}
		for _, pw := range pws {
			if seen[pw] {
				continue
			}
			seen[pw] = true
			want := a != nil && a.pw == pw
			got, err := w.tryLogin(l, pw)
			c.Count("login_attempts", 1)
			if err != nil {
				c.Unsure("login attempt: %v", err)
				return false
			}
			if got != want {
				k := "C15/login/accepted-but-should-not"
				if want {
					k = "C15/login/refused-but-should-succeed"
				}
				st := "absent from the model"
				if a != nil {
					st = fmt.Sprintf("in the model with password %q", a.pw)
				}
				c.Fail(k, "after step %d: login %q with password %q: accepted=%v, expected %v (account is %s)\nhistory:\n%s", w.step, l, pw, got, want, st, w.hist())
				return false
			}
		}
	}
	w.srv.Quiesce(refclient.Watchdog)
	w.adm.Drain()
	// (2) list-users / get-user
	rep, ok := w.adm.Call(348)
	if !ok || rep.Err != 0 {
		c.Fail("C15/list-users/failed", "list-users failed: %v", rep)
		return false
	}
	listed := map[string]bool{}
	for _, d := range rep.GetAll(101) {
		fs, err := rc.DecodeSubFields(d)
		if err != nil {
			c.Fail("C15/list-users/unparseable", "record does not parse: %v", err)
			return false
		}
		var lg, nm, ac []byte
		hasPW := false
		for _, f := range fs {
			switch f.ID {
			case 105:
				lg = rc.Obfuscate(f.Data)
			case 102:
				nm = f.Data
			case 110:
				ac = f.Data
			case 106:
				hasPW = true
			}
		}
		a := w.model[string(lg)]
		if a == nil {
			c.Fail("C15/list-users/ghost", "after step %d: list-users shows %q which the model does not contain (deleted or renamed away)\nhistory:\n%s", w.step, lg, w.hist())
			return false
		}
		if listed[string(lg)] {
			c.Fail("C15/list-users/duplicate", "after step %d: %q listed twice", w.step, lg)
			return false
		}
		listed[string(lg)] = true
		if string(nm) != a.name || !bytes.Equal(ac, a.access) || hasPW != (a.pw != "") {
			c.Fail("C15/list-users/differs", "after step %d: %q listed as name=%q access=%x hasPassword=%v; model name=%q access=%x password=%q\nhistory:\n%s", w.step, lg, nm, ac, hasPW, a.name, a.access, a.pw, w.hist())
			return false
		}
	}
	for l := range w.model {
		if !listed[l] {
			c.Fail("C15/list-users/missing", "after step %d: %q missing from list-users\nhistory:\n%s", w.step, l, w.hist())
			return false
		}
	}
	for _, l := range w.ever {
		rep, ok := w.adm.Call(352, rc.FS(105, l))
		a := w.model[l]
		if a == nil {
			if ok && rep.Err == 0 {
				c.Fail("C15/get-user/ghost", "after step %d: get-user %q succeeds for an account that should not exist\nhistory:\n%s", w.step, l, w.hist())
				return false
			}
			continue
		}
		if !ok || rep.Err != 0 {
			c.Fail("C15/get-user/missing", "after step %d: get-user %q failed: %v\nhistory:\n%s", w.step, l, rep, w.hist())
			return false
		}
		nm, _ := rep.Get(102)
		ac, _ := rep.Get(110)
		lg, _ := rep.Get(105)
		if string(nm) != a.name || !bytes.Equal(ac, a.access) || string(rc.Obfuscate(lg)) != l {
			c.Fail("C15/get-user/differs", "after step %d: get-user %q -> name=%q access=%x login=%q; model name=%q access=%x", w.step, l, nm, ac, rc.Obfuscate(lg), a.name, a.access)
			return false
		}
	}
	// (3) files
	dir := filepath.Join(w.srv.ConfigDir, "Users")
	ents, _ := os.ReadDir(dir)
	onDisk := map[string]bool{}
	for _, e := range ents {
		if !strings.HasSuffix(e.Name(), ".yaml") {
			continue
		}
		raw, _ := os.ReadFile(filepath.Join(dir, e.Name()))
		var doc struct {
			Login    string `yaml:"Login"`
			Name     string `yaml:"Name"`
			Password string `yaml:"Password"`
		}
		if err := yaml.Unmarshal(raw, &doc); err != nil {
			c.Fail("C15/disk/unparseable", "after step %d: %s does not parse: %v", w.step, e.Name(), err)
			return false
		}
		l := strings.TrimSuffix(e.Name(), ".yaml")
		a := w.model[l]
		if a == nil {
			c.Fail("C15/disk/ghost-file", "after step %d: account file %q exists for a login the model does not contain\nhistory:\n%s", w.step, e.Name(), w.hist())
			return false
		}
		onDisk[l] = true
		if doc.Login != l || doc.Name != a.name {
			c.Fail("C15/disk/differs", "after step %d: file %q holds login=%q name=%q; model login=%q name=%q\nhistory:\n%s", w.step, e.Name(), doc.Login, doc.Name, l, a.name, w.hist())
			return false
		}
		if bcrypt.CompareHashAndPassword([]byte(doc.Password), rc.Obfuscate([]byte(a.pw))) != nil {
			c.Fail("C15/disk/hash-mismatch", "after step %d: stored hash of %q does not verify the model password %q\nhistory:\n%s", w.step, l, a.pw, w.hist())
			return false
		}
		if len(a.pw) >= 4 && (bytes.Contains(raw, []byte(a.pw)) || bytes.Contains(raw, rc.Obfuscate([]byte(a.pw)))) {
			c.Fail("C15/disk/cleartext-password", "account file %q contains the password", e.Name())
			return false
		}
	}
	for l := range w.model {
		if !onDisk[l] {
			c.Fail("C15/disk/missing-file", "after step %d: no account file for %q\nhistory:\n%s", w.step, l, w.hist())
			return false
		}
	}
	// (4) restart
	m2, err := verifshim.NewYAMLAccountManager(dir)
	if err != nil {
		c.Fail("C15/restart/load-failed", "after step %d: a fresh account manager cannot load the directory: %v\nhistory:\n%s", w.step, err, w.hist())
		return false
	}
	got := m2.List()
	if len(got) != len(w.model) {
		c.Fail("C15/restart/count", "after step %d: restart yields %d accounts, model has %d\nhistory:\n%s", w.step, len(got), len(w.model), w.hist())
		return false
	}
	for _, g := range got {
		a := w.model[g.Login]
		if a == nil || g.Name != a.name || bcrypt.CompareHashAndPassword([]byte(g.Password), rc.Obfuscate([]byte(a.pw))) != nil {
			c.Fail("C15/restart/differs", "after step %d: restart yields account %q name=%q that differs from the model\nhistory:\n%s", w.step, g.Login, g.Name, w.hist())
			return false
		}
		// privileges: only the defined ones survive the file
		for _, b := range fixture.DefinedBits() {
			if rc.BitSet(g.Access[:], b) != rc.BitSet(a.access, b) {
				c.Fail("C15/restart/access-differs", "after step %d: restart yields %q access %x, model %x", w.step, g.Login, g.Access, a.access)
				return false
			}
		}
	}
	return true
}

func runCase(c *core.Case) {
	srv, err := fixture.New(fixture.Options{})
	if err != nil {
		c.Unsure("fixture: %v", err)
		return
	}
	defer srv.Close()
	adm, err := refclient.LoginAs(srv, "10.15.255.1:1", "admin", "", "Admin")
	if err != nil {
		c.Unsure("admin login: %v", err)
		return
	}
	ga := srv.S.AccountManager.Get("guest").Access
	aa := srv.S.AccountManager.Get("admin").Access
	w := &world{c: c, srv: srv, adm: adm, kinds: map[string]int{}, everPW: map[string][]string{},
		model: map[string]*macc{"admin": {"admin", aa[:], ""}, "guest": {"guest", ga[:], ""}}}
	steps := 12 + c.R.Intn(14)
	for w.step = 1; w.step <= steps; w.step++ {
		if !w.doStep() {
			break
		}
		c.Count("steps", 1)
		if !w.check() {
			break
		}
	}
	var ks []string
	for k := range w.kinds {
		ks = append(ks, k)
	}
	sort.Strings(ks)
	class := ""
	if w.kinds["batch-rename"]+w.kinds["delete-user"]+w.kinds["batch-delete"]+w.kinds["set-user"] > 0 {
		class = strings.Join(ks, "+")
	}
	sample := w.log
	if len(sample) > 6 {
		sample = sample[:6]
	}
	c.Describe(class, map[string]any{"steps": w.step - 1, "first_operations": sample})
}
