// Package c16: a privilege bit means the same on the wire, in memory and on disk.
package c16

import (
	"bytes"
	"encoding/json"
	"fmt"
	"os"
	"path/filepath"
	"sort"
	"strings"
	"sync"

	"github.com/jhalter/mobius/hotline"
	"github.com/jhalter/mobius/verifshim"
	"gopkg.in/yaml.v3"

	"verifharness/internal/core"
	"verifharness/internal/fixture"
	"verifharness/internal/refclient"
	rc "verifharness/internal/refcodec"
)

const group = 20

var defined = fixture.DefinedBits()

// enumeration: 0 = empty, 1..40 singles, then 780 pairs, then random subsets
func bitsetFor(n int, seed int64) (set []int, class string) {
	if n == 0 {
		return nil, "empty"
	}
	n--
	if n < len(defined) {
		return []int{defined[n]}, "single"
	}
	n -= len(defined)
	np := len(defined) * (len(defined) - 1) / 2
	if n < np {
		for i := 0; i < len(defined); i++ {
			for j := i + 1; j < len(defined); j++ {
				if n == 0 {
					return []int{defined[i], defined[j]}, "pair"
				}
				n--
			}
		}
	}
	n -= np
	if n == 0 {
		return append([]int{}, defined...), "all"
	}
	r := core.NewRand(seed, uint64(n), 0x16)
	dens := 1 + r.Intn(9)
	for _, b := range defined {
		if r.Intn(10) < dens {
			set = append(set, b)
		}
	}
	return set, "random"
}

const exhaustiveN = 1 + 40 + 780 + 1

func init() {
	quick := (exhaustiveN + 1500 + group - 1) / group
	core.Register(&core.Simple{
		Id: "C16", Lvl: "exploration", Quick: quick, Thorough: (exhaustiveN + 150000) / group, PerBatch: 40, Width: 16, Timeout: 1500,
		RuleText: "bitmaps over the 40 defined privileges are enumerated: empty, all 40 single bits and all 780 pairs (exhaustive), all-40, then seeded random subsets; for each bitmap the account is saved through the real account manager (YAML keys set to true must be exactly the reference names), reloaded by a fresh manager, later edited to the next bitmap (every second edit also changes the login, every fourth goes through a set-user request above 4 KiB with the privilege field before a long name) with memory, file and a fresh manager compared again, written in legacy numeric-array form and loaded (migration) and reloaded, logged in (user-access field compared byte-for-byte, MSB-first), and probed with governed requests (chat, board read/post, list accounts, new folder, broadcast, client info) whose grant/deny must follow the same numbering. a stress batch has four editors change the privileges of the same account at the same moment (8 accounts, 500 rounds quick): memory and file must agree afterwards. distinct = bitmap; non-trivial = non-empty bitmap",
		Case:     runCase,
		Extra: func(tier string, seed int64) []core.Batch {
			n := 500
			if tier == "thorough" {
				n = 20000
			}
			a, _ := json.Marshal(map[string]int{"rounds": n})
			return []core.Batch{{Name: "concurrent-edits", Args: a, Timeout: 1200}}
		},
		RunExtra: runConcurrentEdits,
	})
}

// runConcurrentEdits: several editors change the privileges of the same account at the same moment. Whatever the
// order, once they are done the running server and the account file must hold the same privileges.
func runConcurrentEdits(b core.Batch, em *core.Emitter) {
	var a struct {
		Rounds int `json:"rounds"`
	}
	json.Unmarshal(b.Args, &a)
	id := "C16/concurrent-edits"
	core.SafeCase(em, id, func() {
		em.Begin(id, nil)
		srv, err := fixture.New(fixture.Options{})
		if err != nil {
			em.Emit(core.Result{Case: id, Verdict: core.Inconclusive, Msg: err.Error()})
			return
		}
		defer srv.Close()
		users := filepath.Join(srv.ConfigDir, "Users")
		r := core.NewRand(b.Seed, 0x16, 0xED)
		const nAcc, nEd = 8, 4
		for i := 0; i < nAcc; i++ {
			srv.S.AccountManager.Create(hotline.Account{Login: fmt.Sprintf("shared%d", i), Name: "S", Password: fixture.HashPassword("")})
		}
		res := core.Result{Case: id, Class: "concurrent-edits", Verdict: core.Held, Obs: map[string]int{}, Sample: map[string]any{"accounts": nAcc, "editors_per_account": nEd, "rounds": a.Rounds}}
		for round := 0; round < a.Rounds && res.Verdict == core.Held; round++ {
			var wg sync.WaitGroup
			start := make(chan struct{})
			for i := 0; i < nAcc; i++ {
				for e := 0; e < nEd; e++ {
					set, _ := bitsetFor(exhaustiveN+r.Intn(100000), b.Seed)
					bm := rc.Bitmap(set...)
					wg.Add(1)
					go func(i int, bm []byte) {
						defer wg.Done()
						<-start
						acc := srv.S.AccountManager.Get(fmt.Sprintf("shared%d", i))
						if acc == nil {
							return
						}
						copy(acc.Access[:], bm)
						srv.S.AccountManager.Update(*acc, acc.Login)
					}(i, bm)
				}
			}
			close(start)
			wg.Wait()
			res.Obs["concurrent_edit_rounds"]++
			m2, err := verifshim.NewYAMLAccountManager(users)
			if err != nil {
				res.Verdict, res.Key, res.Msg = core.Violated, "C16/concurrent-edits/reload", "fresh manager after concurrent edits: "+err.Error()
				break
			}
			for i := 0; i < nAcc; i++ {
				l := fmt.Sprintf("shared%d", i)
				mem, disk := srv.S.AccountManager.Get(l), m2.Get(l)
				if mem == nil || disk == nil || mem.Access != disk.Access {
					res.Verdict, res.Key = core.Violated, "C16/concurrent-edits/memory-differs-from-file"
					res.Msg = fmt.Sprintf("round %d: after %d concurrent edits of account %s the running server holds privileges %x, the account file %x", round, nEd, l, accessOf(mem), accessOf(disk))
					break
				}
			}
		}
		em.Emit(res)
		em.Emit(core.Result{Case: id + "/rounds", Class: "concurrent-edits-rounds", Verdict: core.Held})
	})
}

type probe struct {
	bit    int
	typ    int
	fields func(i int) []rc.Field
	reply  bool // has a reply when granted
}

var probes = []probe{
	{20, 101, func(int) []rc.Field { return nil }, true},
	{16, 348, func(int) []rc.Field { return nil }, true},
	{5, 205, func(i int) []rc.Field { return []rc.Field{rc.FS(201, fmt.Sprintf("nf%d", i))} }, true},
	{32, 355, func(int) []rc.Field { return []rc.Field{rc.FS(101, "b")} }, true},
	{21, 103, func(int) []rc.Field { return []rc.Field{rc.FS(101, "p")} }, true},
	{10, 105, func(int) []rc.Field { return []rc.Field{rc.FS(101, "c")} }, false},
	{36, 381, func(i int) []rc.Field { return []rc.Field{rc.FS(201, fmt.Sprintf("b%d", i))} }, true},
	{34, 382, func(i int) []rc.Field { return []rc.Field{rc.FS(322, fmt.Sprintf("c%d", i))} }, true},
	{2, 202, func(int) []rc.Field { return []rc.Field{rc.FS(201, "f.txt")} }, true},
	{39, 210, func(int) []rc.Field { return []rc.Field{rc.FS(201, "d")} }, true},
	{40, 108, func(int) []rc.Field { return []rc.Field{rc.F(103, rc.U16(9999)), rc.FS(101, "x")} }, false},
}

func runCase(c *core.Case) {
	srv, err := fixture.New(fixture.Options{Files: func(root string) {
		fixture.WriteFile(root+"/f.txt", "x")
		fixture.WriteFile(root+"/d/g.txt", "y")
	}})
	if err != nil {
		c.Unsure("fixture: %v", err)
		return
	}
	defer srv.Close()
	users := filepath.Join(srv.ConfigDir, "Users")
	legacyDir := filepath.Join(srv.Dir, "legacy")
	os.MkdirAll(legacyDir, 0755)
	legacyDirSrc := filepath.Join(srv.Dir, "legacy-src")
	os.MkdirAll(legacyDirSrc, 0755)
	type item struct {
		login string
		set   []int
		bm    []byte
		class string
	}
	var items []item
	for g := 0; g < group; g++ {
		n := c.Index*group + g
		set, class := bitsetFor(n, c.Seed)
		it := item{login: fmt.Sprintf("u%06d", n), set: set, bm: rc.Bitmap(set...), class: class}
		items = append(items, it)
		var ab hotline.AccessBitmap
		copy(ab[:], it.bm)
		// (1) save through the real account manager
		if err := srv.S.AccountManager.Create(hotline.Account{Login: it.login, Name: "N", Password: fixture.HashPassword(""), Access: ab}); err != nil {
			c.Unsure("create: %v", err)
			return
		}
		raw, err := os.ReadFile(filepath.Join(users, it.login+".yaml"))
		if err != nil {
			c.Fail("C16/no-file", "account file missing: %v", err)
			return
		}
		var doc struct {
			Access map[string]bool `yaml:"Access"`
		}
		if err := yaml.Unmarshal(raw, &doc); err != nil {
			c.Fail("C16/yaml", "account file does not parse: %v", err)
			return
		}
		var gotNames, wantNames []string
		for k, v := range doc.Access {
			if v {
				gotNames = append(gotNames, k)
			}
		}
		for _, b := range set {
			wantNames = append(wantNames, fixture.AccessNames[b])
		}
		sort.Strings(gotNames)
		sort.Strings(wantNames)
		if strings.Join(gotNames, ",") != strings.Join(wantNames, ",") {
			c.Fail("C16/disk-names", "bitmap %x (privileges %v): account file marks %v true, protocol names are %v", it.bm, set, gotNames, wantNames)
		}
		// (3) legacy numeric-array form
		leg := fmt.Sprintf("Login: %s\nName: N\nPassword: %q\nAccess: [%d, %d, %d, %d, %d, %d, %d, %d]\nFileRoot: \"\"\n", it.login, fixture.HashPassword(""),
			it.bm[0], it.bm[1], it.bm[2], it.bm[3], it.bm[4], it.bm[5], it.bm[6], it.bm[7])
		os.WriteFile(filepath.Join(legacyDir, it.login+".yaml"), []byte(leg), 0644)
		os.WriteFile(filepath.Join(legacyDirSrc, it.login+".yaml"), []byte(leg), 0644)
	}
	// (2) reload by a fresh manager
	check := func(what string, m *verifshim.YAMLAccountManager) {
		for _, it := range items {
			a := m.Get(it.login)
			if a == nil {
				c.Fail("C16/"+what+"/missing", "%s: account %s missing", what, it.login)
				continue
			}
			if !bytes.Equal(a.Access[:], it.bm) {
				c.Fail("C16/"+what+"/bits-differ", "%s: bitmap %x (privileges %v) came back as %x", what, it.bm, it.set, a.Access)
			}
		}
	}
	if m2, err := verifshim.NewYAMLAccountManager(users); err != nil {
		c.Fail("C16/reload", "fresh manager: %v", err)
	} else {
		check("named-reload", m2)
	}
	if m3, err := verifshim.NewYAMLAccountManager(legacyDir); err != nil {
		c.Fail("C16/legacy-load", "legacy directory: %v", err)
	} else {
		check("legacy-load", m3)
		if m4, err := verifshim.NewYAMLAccountManager(legacyDir); err != nil {
			c.Fail("C16/legacy-reload", "migrated legacy directory: %v", err)
		} else {
			check("legacy-migrated-reload", m4)
		}
		// after migration the legacy file must carry the named form
		for _, it := range items[:1] {
			raw, _ := os.ReadFile(filepath.Join(legacyDir, it.login+".yaml"))
			if !strings.Contains(string(raw), "DownloadFile:") {
				c.Fail("C16/legacy-not-migrated", "legacy file not rewritten in named form: %s", raw)
			}
		}
	}
	// (3b) a directory as a long-lived server has it: legacy files, named files and files without any Access section
	// side by side. What one file says must not leak into the account loaded after it.
	mixedDir := filepath.Join(srv.Dir, "mixed")
	os.MkdirAll(mixedDir, 0755)
	for gi, it := range items {
		if gi%2 == 0 {
			raw, _ := os.ReadFile(filepath.Join(legacyDirSrc, it.login+".yaml"))
			os.WriteFile(filepath.Join(mixedDir, it.login+".yaml"), raw, 0644)
		} else {
			raw, _ := os.ReadFile(filepath.Join(users, it.login+".yaml"))
			os.WriteFile(filepath.Join(mixedDir, it.login+".yaml"), raw, 0644)
		}
		if gi%3 == 0 {
			bare := fmt.Sprintf("Login: %s~bare\nName: B\nPassword: %q\n", it.login, fixture.HashPassword(""))
			os.WriteFile(filepath.Join(mixedDir, it.login+"~bare.yaml"), []byte(bare), 0644)
		}
	}
	if m5, err := verifshim.NewYAMLAccountManager(mixedDir); err != nil {
		c.Fail("C16/mixed-load", "directory with legacy, named and bare account files: %v", err)
	} else {
		check("mixed-load", m5)
		for gi, it := range items {
			if gi%3 != 0 {
				continue
			}
			if a := m5.Get(it.login + "~bare"); a == nil {
				c.Fail("C16/mixed-load/missing", "account file without an Access section was not loaded (%s~bare)", it.login)
			} else if !bytes.Equal(a.Access[:], make([]byte, 8)) {
				c.Fail("C16/mixed-load/bits-differ", "an account file without any Access section, loaded from a directory with other accounts, came back with privileges %x", a.Access)
			}
		}
		c.Count("mixed_directory_loads", 1)
	}
	// (4) wire + (5) authorization
	for gi, it := range items {
		cl, err := refclient.LoginAs(srv, fmt.Sprintf("10.16.0.%d:1", gi+1), it.login, "", "P")
		if err != nil {
			c.Fail("C16/login", "login with %s: %v", it.login, err)
			continue
		}
		srv.Quiesce(refclient.Watchdog)
		var wire []byte
		for _, t := range cl.Drain() {
			if t.Type == 354 {
				wire, _ = t.Get(110)
			}
		}
		if !bytes.Equal(wire, it.bm) {
			c.Fail("C16/wire", "privileges %v: user-access field on the wire is %x, MSB-first encoding is %x", it.set, wire, it.bm)
		}
		np := 3
		if it.class == "single" || it.class == "pair" {
			np = len(probes)
		}
		off := c.R.Intn(len(probes))
		for k := 0; k < np; k++ {
			p := probes[(off+k)%len(probes)]
			has := rc.BitSet(it.bm, p.bit)
			id := cl.Send(p.typ, p.fields(gi)...)
			cl.Conn.WaitIdle(refclient.Watchdog)
			srv.Quiesce(refclient.Watchdog)
			var rep *rc.Tran
			for _, t := range cl.Drain() {
				if t.IsReply == 1 && t.ID == id {
					tt := t
					rep = &tt
				}
			}
			denied := rep != nil && rep.Err != 0
			if has && denied {
				c.Fail("C16/authz-denied", "privileges %v include %d (%s) but request %d was refused", it.set, p.bit, fixture.AccessNames[p.bit], p.typ)
			}
			if !has && !denied {
				c.Fail("C16/authz-granted", "privileges %v lack %d (%s) but request %d was not refused (reply %v)", it.set, p.bit, fixture.AccessNames[p.bit], p.typ, rep)
			}
			c.Count("authz_probes", 1)
		}
		cl.Hangup()
		cls := ""
		if len(it.set) > 0 {
			cls = fmt.Sprintf("%x", it.bm)
		}
		_ = cls
	}
	// (6) the other way an account is saved: an edit, with or without a change of login in the same request. The
	// privileges become those of the NEXT item; memory, the file (by name) and a fresh manager must all show them.
	var editor *refclient.Client
	for gi, it := range items {
		next := items[(gi+1)%len(items)]
		acc := srv.S.AccountManager.Get(it.login)
		if acc == nil {
			c.Fail("C16/edit/missing", "account %s missing before the edit", it.login)
			continue
		}
		copy(acc.Access[:], next.bm)
		newLogin := it.login
		if gi%2 == 0 {
			newLogin = it.login + "-renamed"
		}
		what := "edit"
		if newLogin != it.login {
			what = "edit-with-rename"
		}
		if gi%4 == 1 {
			// this edit goes through the protocol: a set-user request larger than 4 KiB whose privilege field comes
			// before a long display name
			what = "edit-by-large-set-user"
			if editor == nil {
				editor, _ = refclient.LoginAs(srv, "10.16.9.1:1", "admin", "", "Editor")
			}
			if editor == nil {
				c.Unsure("editor login failed")
				return
			}
			longName := strings.Repeat("N", 4100+c.R.Intn(12000)) // the account file grows beyond 8 and 16 KiB
			rep, ok := editor.Call(353, rc.F(110, next.bm), rc.FS(102, longName), rc.F(105, rc.Obfuscate([]byte(it.login))), rc.F(106, []byte{0}))
			if !ok || rep.Err != 0 {
				c.Fail("C16/edit/refused", "set-user for %s refused: %v", it.login, rep)
				continue
			}
			c.Count("edits_by_large_set_user", 1)
		} else if err := srv.S.AccountManager.Update(*acc, newLogin); err != nil {
			c.Fail("C16/edit/error", "update %s -> %s: %v", it.login, newLogin, err)
			continue
		}
		c.Count("edits", 1)
		if a := srv.S.AccountManager.Get(newLogin); a == nil || !bytes.Equal(a.Access[:], next.bm) {
			c.Fail("C16/"+what+"/memory", "%s from privileges %v to %v: the running server holds %x, want %x", what, it.set, next.set, accessOf(a), next.bm)
		}
		raw, _ := os.ReadFile(filepath.Join(users, newLogin+".yaml"))
		var doc struct {
			Access map[string]bool `yaml:"Access"`
		}
		yaml.Unmarshal(raw, &doc)
		var gotNames, wantNames []string
		for k, v := range doc.Access {
			if v {
				gotNames = append(gotNames, k)
			}
		}
		for _, b := range next.set {
			wantNames = append(wantNames, fixture.AccessNames[b])
		}
		sort.Strings(gotNames)
		sort.Strings(wantNames)
		if strings.Join(gotNames, ",") != strings.Join(wantNames, ",") {
			c.Fail("C16/"+what+"/disk-names", "%s to privileges %v: account file marks %v true, protocol names are %v", what, next.set, gotNames, wantNames)
		}
	}
	if m5, err := verifshim.NewYAMLAccountManager(users); err != nil {
		c.Fail("C16/reload-after-edits", "fresh manager: %v", err)
	} else {
		for gi, it := range items {
			next := items[(gi+1)%len(items)]
			newLogin := it.login
			if gi%2 == 0 {
				newLogin = it.login + "-renamed"
			}
			if a := m5.Get(newLogin); a == nil || !bytes.Equal(a.Access[:], next.bm) {
				c.Fail("C16/edit/reload", "after an edit to privileges %v a fresh manager holds %x for %s, want %x", next.set, accessOf(a), newLogin, next.bm)
			}
		}
	}
	c.Count("bitmaps", len(items))
	classes := map[string]int{}
	for _, it := range items {
		classes[it.class]++
	}
	c.Describe(fmt.Sprintf("group%d", c.Index), map[string]any{"first_bitmap": fmt.Sprintf("%x", items[0].bm), "first_privileges": items[0].set, "classes": classes})
	for k, v := range classes {
		c.Count("bitmaps_"+k, v)
	}
}

func accessOf(a *hotline.Account) []byte {
	if a == nil {
		return nil
	}
	return a.Access[:]
}
