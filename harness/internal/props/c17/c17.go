// Package c17: disconnects and bans are enforced at the door.
package c17

import (
	"bytes"
	"encoding/json"
	"fmt"
	"os"
	"path/filepath"
	"sync"

	"github.com/jhalter/mobius/verifshim"
	"strings"
	"time"

	"gopkg.in/yaml.v3"

	"verifharness/internal/core"
	"verifharness/internal/fixture"
	"verifharness/internal/refclient"
	rc "verifharness/internal/refcodec"
)

func init() {
	core.Register(&core.Simple{
		Id: "C17", Lvl: "exploration", Quick: 320, Thorough: 6000, PerBatch: 80, Width: 40, Timeout: 1500,
		RuleText: "each case: an administrator disconnects a target (an ordinary named user, a user who agreed with an empty name, or a 1.5+ client between login and agreed; for the last no user-left notice is demanded) at a random IPv4 address with option none / temporary / permanent ban (the option sent as a 2-byte or, in a quarter of the cases, a 4-byte integer; optionally after an earlier expired or temporary entry for the same address; or the case injects a ban entry whose expiry lies 2 s .. 24 h in the past or 1 min .. 24 h in the future); oracles: reply, target connection closed, every other client receives a user-left notice, ban entry in memory and in Banlist.yaml with expiry bracketed by the harness clock readings + 30 min (no slack), then reconnect attempts from the same address (other port; also over a connection that had been accepted before the ban but had not yet sent its handshake), near-miss addresses (a.b.c.d0, 1a.b.c.d, neighbour host) and an unrelated address, before and after a restart on the same ban file (in a third of the cases a cut-short Banlist.yaml.tmp of a crashed server is lying around; in a quarter of the named-target cases the target leaves by itself right after the request and another user logs in within the server's one-second delay, and must not be hit by it): a banned address must get handshake reply + one ban notice + close with its login transaction unprocessed, all others must log in. a stress batch has 4-8 administrators ban different users at the same moment and then restarts: every address must still be banned. distinct = (ban option or injected expiry class, restart phase, address class); non-trivial = every case",
		Case:     runCase,
		Extra: func(tier string, seed int64) []core.Batch {
			n := 8
			if tier == "thorough" {
				n = 120
			}
			a, _ := json.Marshal(map[string]int{"runs": n})
			return []core.Batch{{Name: "concurrent-bans", Args: a, Timeout: 1500}}
		},
		RunExtra: runConcurrentBans,
	})
}

// runConcurrentBans: several administrators ban different users at the same moment; after a restart on the same ban
// file every one of those addresses must still be refused.
func runConcurrentBans(b core.Batch, em *core.Emitter) {
	var a struct {
		Runs int `json:"runs"`
	}
	json.Unmarshal(b.Args, &a)
	core.Parallel(a.Runs, 8, func(run int) {
		id := fmt.Sprintf("C17/concurrent-bans/%d", run)
		core.SafeCase(em, id, func() {
			em.Begin(id, nil)
			r := core.NewRand(b.Seed, uint64(run), 0x17)
			srv, err := fixture.New(fixture.Options{Accounts: []fixture.Account{
				{Login: "admin", Name: "admin", Access: rc.AllBits()},
				{Login: "guest", Name: "guest", Access: fixture.GuestBits()},
			}})
			if err != nil {
				em.Emit(core.Result{Case: id, Verdict: core.Inconclusive, Msg: err.Error()})
				return
			}
			defer srv.Close()
			rounds := 6
			if b.Tier == "thorough" {
				rounds = 12
			}
			k := 4 + r.Intn(5)
			res := core.Result{Case: id, Class: fmt.Sprintf("concurrent-bans/k%d", k), Verdict: core.Held, Obs: map[string]int{},
				Sample: map[string]any{"concurrent_bans_per_round": k, "rounds": rounds}}
			var admins []*refclient.Client
			for i := 0; i < k; i++ {
				ad, err := refclient.LoginAs(srv, fmt.Sprintf("10.17.9.%d:1", i+1), "admin", "", fmt.Sprintf("Adm%d", i))
				if err != nil {
					em.Emit(core.Result{Case: id, Verdict: core.Inconclusive, Msg: "login"})
					return
				}
				admins = append(admins, ad)
			}
			var ips []string
			banPath := filepath.Join(srv.ConfigDir, "Banlist.yaml")
			for round := 0; round < rounds && res.Verdict == core.Held; round++ {
				ids := map[int]uint16{}
				base := len(ips)
				for i := 0; i < k; i++ {
					ip := fmt.Sprintf("%d.%d.%d.%d", 20+round, r.Intn(256), 1+i, 1+r.Intn(250))
					name := fmt.Sprintf("T%d-%d", round, i)
					if _, err := refclient.LoginAs(srv, ip+":999", "guest", "", name); err != nil {
						em.Emit(core.Result{Case: id, Verdict: core.Inconclusive, Msg: "target login: " + err.Error()})
						return
					}
					ips = append(ips, ip)
				}
				ul, _ := admins[0].Call(300)
				us, _ := refclient.UserList(ul)
				for _, u := range us {
					for i := 0; i < k; i++ {
						if string(u.Name) == fmt.Sprintf("T%d-%d", round, i) {
							ids[i] = u.ID
						}
					}
				}
				start := make(chan struct{})
				var wg sync.WaitGroup
				acked := make([]bool, k)
				for i := 0; i < k; i++ {
					wg.Add(1)
					go func(i int) {
						defer wg.Done()
						<-start
						rep, ok := admins[i].CallDirect(110, rc.F(103, rc.U16(int(ids[i]))), rc.F(113, rc.U16(1+i%2)))
						acked[i] = ok && rep.Err == 0
					}(i)
				}
				// in every second round the operator reloads the ban file (SIGHUP / API reload) again and again meanwhile
				stopReload, reloadDone := make(chan struct{}), make(chan struct{})
				go func() {
					defer close(reloadDone)
					bf, ok := srv.S.BanList.(*verifshim.BanFile)
					if !ok || round%2 == 0 {
						return
					}
					<-start
					for {
						select {
						case <-stopReload:
							return
						default:
						}
						bf.Load()
						time.Sleep(100 * time.Microsecond)
					}
				}()
				close(start)
				wg.Wait()
				close(stopReload)
				<-reloadDone
				srv.Quiesce(refclient.Watchdog)
				res.Obs["concurrent_ban_requests"] += k
				// the running server must hold every acknowledged ban (a reload during the bans must not have dropped one)
				for i := 0; i < k; i++ {
					if banned, _ := srv.S.BanList.IsBanned(ips[base+i]); acked[i] && !banned {
						res.Verdict, res.Key = core.Violated, "C17/concurrent-bans/lost-in-memory"
						res.Msg = fmt.Sprintf("round %d: the ban of %s was acknowledged (while the ban file was being reloaded), but the running server does not hold it", round, ips[base+i])
					}
				}
				// what a restart would read: a fresh ban list loaded from the file
				fresh, err := verifshim.NewBanFile(banPath)
				if err != nil {
					res.Verdict, res.Key, res.Msg = core.Violated, "C17/concurrent-bans/restart-failed", fmt.Sprintf("after round %d of concurrent bans the ban file cannot be loaded: %v", round, err)
					break
				}
				for i := 0; i < base+k; i++ {
					if i >= base && !acked[i-base] {
						continue
					}
					if banned, _ := fresh.IsBanned(ips[i]); !banned {
						res.Verdict, res.Key = core.Violated, "C17/concurrent-bans/lost-after-restart"
						res.Msg = fmt.Sprintf("round %d: %d administrators banned %d different addresses at the same moment and all were acknowledged, but a ban list freshly loaded from the file does not contain address #%d (%s)", round, k, k, i, ips[i])
					}
				}
			}
			em.Emit(res)
		})
	})
}

type attempt struct {
	addr   string
	banned bool
	class  string
	pre    *refclient.Client // a connection from addr that was accepted earlier and has not sent anything yet
}

// tryConnect connects from addr, sends handshake+login(+a chat line), and reports what happened.
func tryConnect(c *core.Case, srv *fixture.Server, at attempt, observers []*refclient.Client, phase string) bool {
	srv.Quiesce(refclient.Watchdog)
	for _, o := range observers {
		o.Drain()
	}
	reg0 := len(srv.S.ClientMgr.List())
	cl := at.pre
	if cl == nil {
		cl = refclient.Connect(srv, at.addr)
	}
	name := "Reconnector"
	login := rc.Tran{Type: 107, ID: cl.NewID(), Fields: []rc.Field{rc.F(105, rc.Obfuscate([]byte("guest"))), rc.F(106, nil), rc.FS(102, name), rc.F(104, rc.U16(1))}}
	chat := rc.Tran{Type: 105, ID: cl.NewID(), Fields: []rc.Field{rc.FS(101, "BANNED-USER-SPEAKS")}}
	cl.Conn.Send(append(append(rc.Handshake(), login.Encode()...), chat.Encode()...))
	if at.banned {
		select {
		case <-cl.Conn.Done:
		case <-time.After(refclient.Watchdog):
			c.Fail("C17/"+phase+"/banned-address-not-closed", "%s: connection from banned address %s (%s) was not closed", phase, at.addr, at.class)
			return false
		}
		srv.Quiesce(refclient.Watchdog)
		out := cl.Conn.Out()
		if !bytes.HasPrefix(out, rc.HandshakeReply) {
			c.Fail("C17/"+phase+"/banned-no-handshake-reply", "%s: banned address got %x", phase, out)
			return false
		}
		frames, rest, err := rc.SplitFrames(out[8:])
		var fl []rc.Tran
		for _, f := range frames {
			if f.Type != fixture.MarkerType {
				fl = append(fl, f)
			}
		}
		if err != nil || len(rest) > 0 || len(fl) != 1 || fl[0].Type != 104 || fl[0].IsReply != 0 {
			c.Fail("C17/"+phase+"/banned-address-served", "%s: connection from banned address %s (%s) must receive exactly one ban notice and nothing else; got %d transactions %v (err %v)", phase, at.addr, at.class, len(fl), fl, err)
			return false
		}
		if n := len(srv.S.ClientMgr.List()); n != reg0 {
			c.Fail("C17/"+phase+"/banned-address-registered", "%s: registry grew from %d to %d for a banned address", phase, reg0, n)
			return false
		}
		for _, o := range observers {
			if got := o.Drain(); len(got) > 0 {
				c.Fail("C17/"+phase+"/banned-login-processed", "%s: another client received %v because of a connection from a banned address — its login/requests were processed", phase, got[0])
				return false
			}
		}
		c.Count("refused_at_door", 1)
		return true
	}
	// must be admitted
	cl.Conn.WaitIdle(refclient.Watchdog)
	srv.Quiesce(refclient.Watchdog)
	cl.SkipHandshakeReply()
	ok := false
	for _, t := range cl.Inbox() {
		if t.IsReply == 1 && t.ID == login.ID && t.Err == 0 {
			ok = true
		}
	}
	if !ok || cl.Conn.HandlerDone() {
		c.Fail("C17/"+phase+"/unbanned-address-refused", "%s: address %s (%s) is not banned but could not log in (handler done=%v, received %x)", phase, at.addr, at.class, cl.Conn.HandlerDone(), head(cl.Conn.Out(), 80))
		return false
	}
	cl.Hangup()
	srv.Quiesce(refclient.Watchdog)
	c.Count("admitted", 1)
	return true
}

func head(b []byte, n int) []byte {
	if len(b) > n {
		return b[:n]
	}
	return b
}

func runCase(c *core.Case) {
	r := c.R
	srv, err := fixture.New(fixture.Options{Accounts: []fixture.Account{
		{Login: "admin", Name: "admin", Access: rc.AllBits()},
		{Login: "guest", Name: "guest", Access: fixture.GuestBits()},
		{Login: "target", Name: "Target", Access: rc.Bitmap(9, 10, 20, 26)},
	}})
	if err != nil {
		c.Unsure("fixture: %v", err)
		return
	}
	defer srv.Close()
	a, b, cc, d := 1+r.Intn(222), r.Intn(256), r.Intn(256), 1+r.Intn(24)
	if a == 10 || a == 127 {
		a = 11
	}
	ip := fmt.Sprintf("%d.%d.%d.%d", a, b, cc, d)
	near := []attempt{
		{fmt.Sprintf("%s0:%d", ip, 1024+r.Intn(60000)), false, "suffix-extended", nil},
		{fmt.Sprintf("1%s:%d", ip, 1024+r.Intn(60000)), false, "prefix-extended", nil},
		{fmt.Sprintf("%d.%d.%d.%d:%d", a, b, cc, d+1, 1024+r.Intn(60000)), false, "neighbour-host", nil},
		{fmt.Sprintf("10.200.%d.%d:%d", r.Intn(256), 1+r.Intn(250), 1024+r.Intn(60000)), false, "unrelated", nil},
	}
	adm, err := refclient.LoginAs(srv, "10.17.0.1:1", "admin", "", "Admin")
	if err != nil {
		c.Unsure("login: %v", err)
		return
	}
	obs, err := refclient.LoginAs(srv, "10.17.0.2:1", "guest", "", "Watcher")
	if err != nil {
		c.Unsure("login: %v", err)
		return
	}
	mode := core.Pick(r, []string{"kick", "kick-temp", "kick-temp", "kick-perm", "kick-perm", "inject-past", "inject-future", "kick-temp", "kick-perm"})
	// an earlier entry for the same address may already be on the list: an expired temporary ban, or a temporary ban
	// that is now upgraded
	prior := ""
	var priorUntil time.Time
	if strings.HasPrefix(mode, "kick-") && r.Chance(1, 2) {
		prior = core.Pick(r, []string{"expired", "expired", "temp"})
		priorUntil = time.Now().Add(-time.Duration(1+r.Intn(300)) * time.Minute)
		if prior == "temp" {
			priorUntil = time.Now().Add(time.Duration(1+r.Intn(20)) * time.Minute)
		}
	}
	banned := false
	desc := mode
	var pending *refclient.Client
	banFile := filepath.Join(srv.ConfigDir, "Banlist.yaml")
	switch mode {
	case "kick", "kick-temp", "kick-perm":
		// the target is an ordinary named user, a user who agreed with an empty name, or a 1.5+ client that has logged
		// in but not yet answered the agreement
		flavour := core.Pick(r, []string{"named", "named", "named", "empty-name", "before-agreed"})
		desc += "/" + flavour
		var tgt *refclient.Client
		if flavour == "named" {
			tgt, err = refclient.LoginAs(srv, fmt.Sprintf("%s:%d", ip, 1024+r.Intn(60000)), "target", "", "Target")
		} else {
			tgt = refclient.Connect(srv, fmt.Sprintf("%s:%d", ip, 1024+r.Intn(60000)))
			if err = tgt.Handshake(); err == nil {
				if rep, ok := tgt.Login(refclient.LoginOpts{Login: "target", Version: 190}); !ok || rep.Err != 0 {
					err = fmt.Errorf("login reply %v", rep)
				} else if flavour == "empty-name" {
					if _, ok := tgt.Agreed("", 1, 0, ""); !ok {
						err = fmt.Errorf("no reply to agreed")
					}
				}
			}
		}
		if err != nil {
			c.Unsure("login: %v", err)
			return
		}
		c.Count("target_"+flavour, 1)
		if r.Bool() {
			// a second connection from the same address has been accepted but has not sent its handshake yet
			pending = refclient.Connect(srv, fmt.Sprintf("%s:%d", ip, 1024+r.Intn(60000)))
			c.Count("connections_pending_during_the_ban", 1)
		}
		if prior != "" {
			// recorded once the target is connected (an active entry would otherwise keep it out)
			srv.S.BanList.Add(ip, &priorUntil)
		}
		ul, _ := adm.Call(300)
		us, _ := refclient.UserList(ul)
		var tid uint16
		for _, u := range us {
			if string(u.Name) == "Target" {
				tid = u.ID
			}
		}
		if flavour != "named" {
			// the id of a user without a name is taken from the server's registry (a real administrator sees the entry
			// with the empty name in the list, or counts ids)
			for _, cc := range srv.S.ClientMgr.List() {
				if strings.HasPrefix(cc.RemoteAddr, ip+":") {
					tid = uint16(cc.ID[0])<<8 | uint16(cc.ID[1])
				}
			}
		}
		if tid == 0 {
			c.Unsure("target id not found")
			return
		}
		srv.Quiesce(refclient.Watchdog)
		adm.Drain()
		obs.Drain()
		if flavour == "named" && r.Chance(1, 4) {
			// the target has stopped reading (a client that wants to sit out the kick): whatever the server still writes
			// to it - the ban notice, other users' notifications - never completes; the connection must be closed all the same
			tgt.Conn.SetBackpressure(1)
			desc += "/target-not-reading"
			c.Count("targets_that_stopped_reading", 1)
		}
		fs := []rc.Field{rc.F(103, rc.U16(int(tid)))}
		enc := rc.U16
		if r.Chance(1, 4) {
			enc = rc.U32 // the ban option as a 4-byte integer, which the protocol allows as well
			desc += "/option-as-4-bytes"
			c.Count("ban_option_as_4_bytes", 1)
		}
		switch mode {
		case "kick-temp":
			fs = append(fs, rc.F(113, enc(1)))
		case "kick-perm":
			fs = append(fs, rc.F(113, enc(2)))
		case "kick":
			if r.Bool() {
				fs = append(fs, rc.F(113, enc(0)))
			}
		}
		// the ban list of a long-lived server: more than 255 entries, permanent and (still running) temporary ones, for
		// other addresses. A new ban must leave every one of them in force.
		var oldTemp []string
		if mode != "kick" && r.Chance(1, 6) {
			for i := 0; i < 262+r.Intn(40); i++ {
				oip := fmt.Sprintf("198.%d.%d.%d", 18+i/250, r.Intn(256), 1+i%250)
				if i%3 == 0 {
					u := time.Now().Add(time.Duration(8+r.Intn(20)) * time.Minute)
					srv.S.BanList.Add(oip, &u)
					oldTemp = append(oldTemp, oip)
				} else {
					srv.S.BanList.Add(oip, nil)
				}
			}
			c.Count("cases_with_more_than_255_earlier_bans", 1)
			desc += "/long-ban-list"
		}
		tBefore := time.Now()
		rep, ok := adm.Call(110, fs...)
		tAfter := time.Now()
		if !ok || rep.Err != 0 {
			c.Fail("C17/disconnect/refused", "disconnect (%s) by an administrator was refused: %v", mode, rep)
			return
		}
		// In a quarter of the cases with a named target, the target hangs up by itself as soon as the request is
		// answered (the server disconnects it only a second later), and another user logs in from elsewhere in that
		// second: the delayed disconnect is meant for the target, never for whoever holds some id by then.
		var newcomer *refclient.Client
		if flavour == "named" && r.Chance(1, 4) {
			tgt.Hangup()
			newcomer, err = refclient.LoginAs(srv, fmt.Sprintf("10.17.8.%d:1", 1+r.Intn(250)), "guest", "", "Newcomer")
			if err != nil {
				c.Unsure("newcomer login: %v", err)
				return
			}
			c.Count("target_left_first_and_newcomer_arrived", 1)
			desc += "/target-left-first"
		}
		select {
		case <-tgt.Conn.Done:
		case <-time.After(refclient.Watchdog):
			c.Fail("C17/disconnect/target-not-closed", "%s: the target's connection was not closed", mode)
			return
		}
		if newcomer == nil && !tgt.Conn.ServerClosed() {
			c.Fail("C17/disconnect/target-not-closed", "%s: handler returned but the connection was not closed by the server", mode)
		}
		srv.Quiesce(refclient.Watchdog)
		if newcomer != nil {
			time.Sleep(1300 * time.Millisecond) // the server's own disconnect of the target runs 1 s after the request
			srv.Quiesce(refclient.Watchdog)
			listed := false
			if ul, ok := adm.Call(300); ok {
				us, _ := refclient.UserList(ul)
				for _, u := range us {
					if string(u.Name) == "Newcomer" {
						listed = true
					}
				}
			}
			if _, ok := newcomer.Call(500); !ok || !listed || newcomer.Conn.HandlerDone() {
				c.Fail("C17/disconnect/hit-somebody-else", "%s: the target left by itself right after the request and another user logged in from a different address within the second; after the server's delayed disconnect that user is listed=%v, its connection is closed=%v, its keep-alive answered=%v", mode, listed, newcomer.Conn.HandlerDone(), ok)
				return
			}
		}
		for _, o := range []*refclient.Client{adm, obs} {
			n := 0
			for _, t := range o.Drain() {
				if idb, _ := t.Get(103); t.Type == 302 && len(idb) == 2 && uint16(idb[0])<<8|uint16(idb[1]) == tid {
					n++
				}
			}
			if n < 1 && flavour != "before-agreed" {
				c.Fail("C17/disconnect/others-not-told", "%s: another client received no user-left notice for the disconnected user", mode)
			}
			if n > 1 {
				c.Count("user_left_notices_repeated", 1) // observed, not judged: the statement only says the others are told
			}
		}
		// ban entry
		isB, until := srv.S.BanList.IsBanned(ip)
		raw, _ := os.ReadFile(banFile)
		var onDisk map[string]*time.Time
		yaml.Unmarshal(raw, &onDisk)
		diskUntil, diskHas := onDisk[ip]
		switch mode {
		case "kick":
			if isB || diskHas {
				c.Fail("C17/ban/unrequested", "plain disconnect recorded a ban for %s (memory %v, disk %v)", ip, isB, diskHas)
			}
		case "kick-perm":
			banned = true
			if !isB || until != nil || !diskHas || diskUntil != nil {
				c.Fail("C17/ban/permanent-not-recorded", "permanent ban of %s: memory banned=%v until=%v; disk present=%v until=%v\nfile:\n%s", ip, isB, until, diskHas, diskUntil, raw)
			}
		case "kick-temp":
			banned = true
			lo, hi := tBefore.Add(30*time.Minute), tAfter.Add(30*time.Minute)
			if !isB || until == nil || until.Before(lo) || until.After(hi) {
				c.Fail("C17/ban/temporary-wrong-expiry", "temporary ban of %s: memory banned=%v until=%v, want expiry within [%v, %v]", ip, isB, until, lo, hi)
			}
			if !diskHas || diskUntil == nil || diskUntil.Before(lo.Add(-time.Second)) || diskUntil.After(hi.Add(time.Second)) {
				c.Fail("C17/ban/temporary-not-on-disk", "temporary ban of %s on disk: present=%v until=%v, want within [%v, %v]\nfile:\n%s", ip, diskHas, diskUntil, lo, hi, raw)
			}
		}
		if len(oldTemp) > 0 {
			raw, _ := os.ReadFile(banFile)
			var onDisk map[string]*time.Time
			yaml.Unmarshal(raw, &onDisk)
			for _, oip := range oldTemp {
				isB, _ := srv.S.BanList.IsBanned(oip)
				_, has := onDisk[oip]
				if !isB || !has {
					c.Fail("C17/ban/earlier-temporary-ban-dropped", "%s of %s on a server with %d earlier ban entries: the temporary ban of %s (still running for minutes) is no longer in force: memory banned=%v, on disk=%v", mode, ip, len(onDisk), oip, isB, has)
					break
				}
			}
		}
	case "inject-past":
		delta := core.Pick(r, []time.Duration{-24 * time.Hour, -time.Hour, -time.Minute, -2 * time.Second, -31 * time.Minute})
		t := time.Now().Add(delta)
		srv.S.BanList.Add(ip, &t)
		desc = fmt.Sprintf("inject expiry %v", delta)
	case "inject-future":
		delta := core.Pick(r, []time.Duration{time.Minute, 29 * time.Minute, 30 * time.Minute, 24 * time.Hour})
		t := time.Now().Add(delta)
		srv.S.BanList.Add(ip, &t)
		banned = true
		desc = fmt.Sprintf("inject expiry +%v", delta)
	}
	if c.Failed() {
		return
	}
	c.Describe(mode+"/"+desc+"/prior="+prior, map[string]any{"mode": mode, "detail": desc, "address": ip, "banned_expected": banned, "earlier_entry_for_the_address": prior})

	same := attempt{fmt.Sprintf("%s:%d", ip, 1024+r.Intn(60000)), banned, "same-address-other-port", nil}
	attempts := append([]attempt{same}, near...)
	// before restart: the same address and two of the others
	if !tryConnect(c, srv, same, []*refclient.Client{adm, obs}, "live") {
		return
	}
	if pending != nil {
		// the connection that was already open when the ban was issued now sends its handshake and login: it comes
		// from a banned address like any other (or, if no ban was requested, must be served)
		if !tryConnect(c, srv, attempt{pending.Addr, banned, "accepted-before-the-ban", pending}, []*refclient.Client{adm, obs}, "live") {
			return
		}
	}
	for _, k := range r.Perm(len(near))[:2] {
		if !tryConnect(c, srv, near[k], []*refclient.Client{adm, obs}, "live") {
			return
		}
	}
	if c.Index%3 == 0 {
		// what a crash in the middle of an earlier ban leaves behind: a temporary ban file, cut short
		os.WriteFile(banFile+".tmp", []byte("10.99.99.1: null\n10.99."), 0644)
		c.Count("stale_ban_temp_file_before_restart", 1)
	}
	// restart on the same configuration directory
	srv2, err := fixture.New(fixture.Options{Dir: srv.Dir})
	if err != nil {
		c.Fail("C17/restart/load-failed", "restart on the same directory failed: %v", err)
		return
	}
	defer srv2.Close()
	w2, err := refclient.LoginAs(srv2, "10.17.0.3:1", "guest", "", "Watcher2")
	if err != nil {
		c.Unsure("login after restart: %v", err)
		return
	}
	for _, k := range r.Perm(len(attempts))[:3] {
		if !tryConnect(c, srv2, attempts[k], []*refclient.Client{w2}, "after-restart") {
			return
		}
	}
	if !tryConnect(c, srv2, same, []*refclient.Client{w2}, "after-restart") {
		return
	}
}
