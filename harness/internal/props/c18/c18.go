// Package c18: threaded news keeps every article and threads new ones correctly.
package c18

import (
	"bytes"
	"encoding/binary"
	"encoding/json"
	"fmt"
	"os"
	"path/filepath"
	"sort"
	"strings"
	"sync"
	"time"

	"github.com/jhalter/mobius/verifshim"

	"verifharness/internal/core"
	"verifharness/internal/fixture"
	"verifharness/internal/refclient"
	rc "verifharness/internal/refcodec"
)

func init() {
	core.Register(&core.Simple{
		Id: "C18", Lvl: "exploration", Quick: 200, Thorough: 5000, PerBatch: 50, Width: 16, Timeout: 1500,
		RuleText: "each case is a history of 15-35 news requests sent through the real connection loop (create bundle/category at nested paths, post, reply (mostly into categories, sometimes into bundles, which the server also accepts), delete article, delete item, read-only requests and article deletion on non-existent paths, replies to a non-existent article sent by a second client, reload of the live store and a second store opened on the file); titles 0..255 bytes, bodies up to ~60 KiB, names with YAML-significant text and high bytes; after every step the category listing of every model path, the article list of every category and get-article of every article are decoded by the reference decoder and compared with a reference news model implementing the stated linking rules. a stress batch has six sessions post twelve articles each into one category at the same moment (every acknowledged post must be listed once, under its own id, also in the file). distinct = multiset of operation kinds; non-trivial = history contains a post and a delete",
		Case:     runCase,
		Extra: func(tier string, seed int64) []core.Batch {
			n := 6
			if tier == "thorough" {
				n = 120
			}
			a, _ := json.Marshal(map[string]int{"runs": n})
			return []core.Batch{{Name: "concurrent-posts", Args: a, Timeout: 1500}}
		},
		RunExtra: runConcurrentPosts,
	})
}

// runConcurrentPosts: several sessions post into the same category at the same moment. Every acknowledged post must be
// in the article list afterwards, under an id of its own, and in a second store loaded from the file.
func runConcurrentPosts(b core.Batch, em *core.Emitter) {
	var a struct {
		Runs int `json:"runs"`
	}
	json.Unmarshal(b.Args, &a)
	core.Parallel(a.Runs, 4, func(run int) {
		id := fmt.Sprintf("C18/concurrent-posts/%d", run)
		core.SafeCase(em, id, func() {
			em.Begin(id, nil)
			srv, err := fixture.New(fixture.Options{NewsYAML: "Categories:\n  cat:\n    Type: [0, 3]\n    Name: cat\n    Articles: {}\n    SubCats: {}\n"})
			if err != nil {
				em.Emit(core.Result{Case: id, Verdict: core.Inconclusive, Msg: err.Error()})
				return
			}
			defer srv.Close()
			const sessions, perSession = 6, 12
			var cls []*refclient.Client
			for i := 0; i < sessions; i++ {
				cl, err := refclient.LoginAs(srv, fmt.Sprintf("10.18.7.%d:1", i+1), "admin", "", fmt.Sprintf("P%d", i))
				if err != nil {
					em.Emit(core.Result{Case: id, Verdict: core.Inconclusive, Msg: err.Error()})
					return
				}
				cls = append(cls, cl)
			}
			var mu sync.Mutex
			acked := map[string]bool{}
			var wg sync.WaitGroup
			start := make(chan struct{})
			for i, cl := range cls {
				wg.Add(1)
				go func(i int, cl *refclient.Client) {
					defer wg.Done()
					<-start
					for k := 0; k < perSession; k++ {
						title := fmt.Sprintf("post-%d-%d-%d", run, i, k)
						rep, ok := cl.CallDirect(410, pathField([]string{"cat"}), rc.F(326, rc.U32(0)), rc.FS(328, title), rc.FS(327, "text/plain"), rc.FS(333, "body of "+title))
						if ok && rep.Err == 0 {
							mu.Lock()
							acked[title] = true
							mu.Unlock()
						}
					}
				}(i, cl)
			}
			// in every second run the operator reloads the news file (SIGHUP / API reload) again and again meanwhile
			reloads := 0
			stopReload := make(chan struct{})
			reloadDone := make(chan struct{})
			go func() {
				defer close(reloadDone)
				st, ok := srv.S.ThreadedNewsMgr.(*verifshim.ThreadedNewsYAML)
				if !ok || run%2 == 0 {
					return
				}
				<-start
				for {
					select {
					case <-stopReload:
						return
					default:
					}
					st.Load()
					reloads++
					time.Sleep(200 * time.Microsecond)
				}
			}()
			close(start)
			wg.Wait()
			close(stopReload)
			<-reloadDone
			srv.Quiesce(refclient.Watchdog)
			res := core.Result{Case: id, Class: "concurrent-posts", Verdict: core.Held, Obs: map[string]int{"concurrent_posts_acknowledged": len(acked), "reloads_during_the_posts": reloads},
				Sample: map[string]any{"sessions": sessions, "posts_per_session": perSession}}
			check := func(what string, titles map[string]int, ids int) {
				for t := range acked {
					if titles[t] != 1 && res.Verdict == core.Held {
						res.Verdict, res.Key = core.Violated, "C18/concurrent-posts/article-lost"
						res.Msg = fmt.Sprintf("%d sessions posted %d articles each into one category at the same moment; all %d posts were acknowledged, but %s lists the article %q %d times (it lists %d articles under %d distinct ids)", sessions, perSession, len(acked), what, t, titles[t], len(titles), ids)
					}
				}
			}
			rep, ok := cls[0].Call(371, pathField([]string{"cat"}))
			d, _ := rep.Get(321)
			l, err := rc.DecodeArtList(d)
			if !ok || err != nil {
				res.Verdict, res.Key, res.Msg = core.Violated, "C18/concurrent-posts/list-unparseable", fmt.Sprintf("article list after concurrent posts: ok=%v err=%v", ok, err)
			} else {
				titles, ids := map[string]int{}, map[uint32]bool{}
				for _, e := range l.Entries {
					titles[string(e.Title)]++
					ids[e.ID] = true
				}
				check("the article list", titles, len(ids))
			}
			if st2, err := verifshim.NewThreadedNewsYAML(filepath.Join(srv.ConfigDir, "ThreadedNews.yaml")); err != nil {
				res.Verdict, res.Key, res.Msg = core.Violated, "C18/concurrent-posts/file-does-not-load", err.Error()
			} else {
				titles := map[string]int{}
				arts := st2.ThreadedNews.Categories["cat"].Articles
				for _, a := range arts {
					titles[a.Title]++
				}
				check("the news file", titles, len(arts))
			}
			em.Emit(res)
		})
	})
}

type art struct {
	title, poster, body string
	date                []byte
	parent, prev, next  uint32
	first               uint32
}

type node struct {
	typ  int // 2 bundle, 3 category
	name string
	kids map[string]*node
	arts map[uint32]*art
}

type world struct {
	forced    []string // step kinds to run first
	bigBodies bool
	c      *core.Case
	srv    *fixture.Server
	cl     *refclient.Client
	root   *node
	log    []string
	kinds  map[string]int
	step   int
	poster string
}

func (w *world) hist() string {
	s := strings.Join(w.log, "\n")
	if len(s) > 5000 {
		s = "…" + s[len(s)-5000:]
	}
	return s
}

func pathField(p []string) rc.Field { return rc.F(325, rc.PathS(p...)) }

func (w *world) find(p []string) *node {
	n := w.root
	for _, s := range p {
		n = n.kids[s]
		if n == nil {
			return nil
		}
	}
	return n
}

// paths of all nodes of a type (0 = all), root included as empty path for bundles
func (w *world) paths(typ int) [][]string {
	var out [][]string
	var walk func(n *node, p []string)
	walk = func(n *node, p []string) {
		if typ == 0 || n.typ == typ {
			out = append(out, append([]string{}, p...))
		}
		var ks []string
		for k := range n.kids {
			ks = append(ks, k)
		}
		sort.Strings(ks)
		for _, k := range ks {
			walk(n.kids[k], append(p, k))
		}
	}
	walk(w.root, nil)
	return out
}

var tricky = []string{"true", "~", "a: b", "#x", " lead", "trail ", "- item", "{a}", "'q'", "0123", "yes", "General Discussion", "é", "tab\there", "*star", "&a", "!b", "|p", ">g"}

func (w *world) genName() string {
	r := w.c.R
	switch r.Intn(5) {
	case 0:
		return core.Pick(r, tricky) + fmt.Sprint(r.Intn(50))
	case 1:
		b := make([]byte, 1+r.Intn(8))
		for i := range b {
			b[i] = byte(0x80 + r.Intn(0x7f))
		}
		return "hb" + string(b)
	default:
		return string(r.Printable(1+r.Intn(20))) + fmt.Sprint(r.Intn(100))
	}
}

func (w *world) genText(maxLen int) string {
	r := w.c.R
	n := 0
	switch r.Intn(6) {
	case 0:
		n = 0
	case 1:
		n = maxLen
	case 2:
		n = maxLen - 1
	default:
		n = r.Intn(maxLen/4 + 1)
	}
	b := r.Printable(n)
	if n > 2 && r.Chance(1, 4) {
		b[r.Intn(n)] = byte(0x80 + r.Intn(0x7f))
	}
	return string(b)
}

func u32(b []byte) uint32 {
	if len(b) != 4 {
		return 0xFFFFFFFF
	}
	return binary.BigEndian.Uint32(b)
}

func (w *world) listIDs(p []string) (map[uint32]rc.ArtListEntry, []uint32, bool) {
	rep, ok := w.cl.Call(371, pathField(p))
	if !ok || rep.Err != 0 {
		w.c.Fail("C18/art-list/failed", "after step %d: article list of %q failed: %v\nhistory:\n%s", w.step, p, rep, w.hist())
		return nil, nil, false
	}
	d, _ := rep.Get(321)
	l, err := rc.DecodeArtList(d)
	if err != nil {
		w.c.Fail("C18/art-list/unparseable", "after step %d: article list of %q is not parseable: %v (%d bytes)\nhistory:\n%s", w.step, p, err, len(d), w.hist())
		return nil, nil, false
	}
	m := map[uint32]rc.ArtListEntry{}
	var order []uint32
	for _, e := range l.Entries {
		if _, dup := m[e.ID]; dup {
			w.c.Fail("C18/art-list/duplicate", "after step %d: article %d listed twice in %q", w.step, e.ID, p)
			return nil, nil, false
		}
		m[e.ID] = e
		order = append(order, e.ID)
	}
	return m, order, true
}

func (w *world) doStep() bool {
	r := w.c.R
	cats := w.paths(3)
	bundles := w.paths(2)
	kind := core.Pick(r, []string{"new-bundle", "new-category", "new-category", "post", "post", "post", "reply", "reply", "delete-article", "delete-article", "delete-item", "ghost-read", "ghost-delete-article", "ghost-reply", "reload"})
	if len(w.forced) > 0 {
		kind, w.forced = w.forced[0], w.forced[1:]
	}
	if len(cats) == 0 && (kind == "post" || kind == "reply" || kind == "delete-article") {
		kind = "new-category"
	}
	w.kinds[kind]++
	switch kind {
	case "new-bundle", "new-category":
		parent := core.Pick(r, bundles)
		name := w.genName()
		pn := w.find(parent)
		if pn.kids[name] != nil {
			return true
		}
		typ, tran, fld := 2, 381, rc.FS(201, name)
		if kind == "new-category" {
			typ, tran, fld = 3, 382, rc.FS(322, name)
		}
		fs := []rc.Field{fld}
		if len(parent) > 0 || r.Bool() {
			fs = append(fs, pathField(parent))
		}
		rep, ok := w.cl.Call(tran, fs...)
		w.log = append(w.log, fmt.Sprintf("%s %q under %q -> %v", kind, name, parent, rep))
		if !ok || rep.Err != 0 {
			w.c.Fail("C18/create/refused", "step %d: %s refused: %v\nhistory:\n%s", w.step, kind, rep, w.hist())
			return false
		}
		pn.kids[name] = &node{typ: typ, name: name, kids: map[string]*node{}, arts: map[uint32]*art{}}
	case "post", "reply":
		p := core.Pick(r, cats)
		// the server also accepts articles in a bundle: now and then post there too (non-root bundles)
		if nb := bundles[1:]; len(nb) > 0 && r.Chance(1, 5) {
			p = core.Pick(r, nb)
		}
		n := w.find(p)
		parent := uint32(0)
		if kind == "reply" {
			var ids []uint32
			for id := range n.arts {
				ids = append(ids, id)
			}
			if len(ids) == 0 {
				return true
			}
			sort.Slice(ids, func(i, j int) bool { return ids[i] < ids[j] })
			parent = core.Pick(r, ids)
		}
		title, body := w.genText(255), w.genText(60000)
		if w.bigBodies && len(w.forced) > 0 {
			body = string(r.Printable(55000 + r.Intn(5000)))
		}
		before, _, ok := w.listIDs(p)
		if !ok {
			return false
		}
		idField := rc.U32(int(parent))
		if parent < 65536 && r.Bool() {
			idField = rc.U16(int(parent))
		}
		rep, ok := w.cl.Call(410, pathField(p), rc.F(326, idField), rc.FS(328, title), rc.FS(327, "text/plain"), rc.FS(333, body))
		w.log = append(w.log, fmt.Sprintf("%s in %q parent=%d titleLen=%d bodyLen=%d -> %v", kind, p, parent, len(title), len(body), rep))
		if !ok || rep.Err != 0 {
			w.c.Fail("C18/post/refused", "step %d: post refused: %v\nhistory:\n%s", w.step, rep, w.hist())
			return false
		}
		after, _, ok := w.listIDs(p)
		if !ok {
			return false
		}
		var fresh []uint32
		for id := range after {
			if _, had := before[id]; !had {
				fresh = append(fresh, id)
			}
		}
		if len(fresh) != 1 {
			w.c.Fail("C18/post/no-new-id", "step %d: posting to %q (ids before: %v) produced %d new ids %v — the article took an ID already in use or vanished\nhistory:\n%s", w.step, p, keys(before), len(fresh), fresh, w.hist())
			return false
		}
		id := fresh[0]
		var newest uint32
		for old := range n.arts {
			if old > newest {
				newest = old
			}
		}
		a := &art{title: title, poster: w.poster, body: body, parent: parent, prev: newest}
		if newest != 0 {
			n.arts[newest].next = id
		}
		if parent != 0 && n.arts[parent].first == 0 {
			n.arts[parent].first = id
		}
		n.arts[id] = a
		w.log[len(w.log)-1] += fmt.Sprintf(" [id %d]", id)
	case "delete-article":
		p := core.Pick(r, cats)
		for _, bp := range bundles[1:] {
			if len(w.find(bp).arts) > 0 && r.Chance(1, 3) {
				p = bp
			}
		}
		n := w.find(p)
		var ids []uint32
		for id := range n.arts {
			ids = append(ids, id)
		}
		if len(ids) == 0 {
			return true
		}
		sort.Slice(ids, func(i, j int) bool { return ids[i] < ids[j] })
		id := core.Pick(r, ids)
		rep, ok := w.cl.Call(411, pathField(p), rc.F(326, rc.U32(int(id))), rc.F(337, rc.U16(0)))
		w.log = append(w.log, fmt.Sprintf("delete-article %d in %q -> %v", id, p, rep))
		if !ok || rep.Err != 0 {
			w.c.Fail("C18/delete-article/refused", "step %d: refused: %v", w.step, rep)
			return false
		}
		delete(n.arts, id)
	case "delete-item":
		all := w.paths(0)
		if len(all) <= 1 {
			return true
		}
		p := core.Pick(r, all[1:])
		rep, ok := w.cl.Call(380, pathField(p))
		w.log = append(w.log, fmt.Sprintf("delete-item %q -> %v", p, rep))
		if !ok || rep.Err != 0 {
			w.c.Fail("C18/delete-item/refused", "step %d: refused: %v", w.step, rep)
			return false
		}
		delete(w.find(p[:len(p)-1]).kids, p[len(p)-1])
	case "ghost-reply":
		// a reply to an article that is not there (deleted a moment ago by somebody else, say), sent by another client
		// whose connection may be dropped for it: nothing may be stored, not even until the next reload
		if len(cats) == 0 {
			return true
		}
		p := core.Pick(r, cats)
		missing := uint32(1000 + r.Intn(1000))
		for id := range w.find(p).arts {
			if id >= missing {
				missing = id + 1 + uint32(r.Intn(50))
			}
		}
		if g, err := refclient.LoginAs(w.srv, fmt.Sprintf("10.18.66.%d:%d", 1+w.step%250, 4000+w.step), "admin", "", "Ghost"); err == nil {
			g.Send(410, pathField(p), rc.F(326, rc.U32(int(missing))), rc.FS(328, "reply to nothing"), rc.FS(327, "text/plain"), rc.FS(333, "orphan"))
			g.Conn.WaitIdle(refclient.Watchdog)
			g.Hangup()
			w.srv.Quiesce(refclient.Watchdog)
		}
		w.log = append(w.log, fmt.Sprintf("another client replies to the non-existent article %d in %q", missing, p))
	case "ghost-read":
		p := []string{"no-such-" + w.genName()}
		if len(bundles) > 1 && r.Bool() {
			p = append(append([]string{}, core.Pick(r, bundles)...), p...)
		}
		w.cl.Call(370, pathField(p))
		w.cl.Call(371, pathField(p))
		w.cl.Call(400, pathField(p), rc.F(326, rc.U32(1)), rc.FS(327, "text/plain"))
		w.log = append(w.log, fmt.Sprintf("read-only requests on missing path %q", p))
	case "ghost-delete-article":
		p := []string{"ghost-" + w.genName()}
		if len(bundles) > 1 && r.Bool() {
			p = append(append([]string{}, core.Pick(r, bundles)...), p...)
		}
		aid := uint32(1)
		if len(cats) > 0 && r.Bool() {
			// the missing element sits in the middle: what follows it names a category that does exist one level up,
			// and the article id is one that category really holds
			real := core.Pick(r, cats)
			p = append(append(append([]string{}, real[:len(real)-1]...), "ghost-"+w.genName()), real[len(real)-1])
			for id := range w.find(real).arts {
				aid = id
				break
			}
		}
		rep, _ := w.cl.Call(411, pathField(p), rc.F(326, rc.U32(int(aid))))
		w.log = append(w.log, fmt.Sprintf("delete-article %d on missing category %q -> %v", aid, p, rep))
	case "reload":
		st, ok := w.srv.S.ThreadedNewsMgr.(*verifshim.ThreadedNewsYAML)
		if !ok {
			return true
		}
		if err := st.Load(); err != nil {
			w.c.Fail("C18/reload/failed", "after step %d: reloading the news file failed: %v\nhistory:\n%s", w.step, err, w.hist())
			return false
		}
		w.log = append(w.log, "reload")
	}
	return true
}

func keys(m map[uint32]rc.ArtListEntry) []uint32 {
	var k []uint32
	for id := range m {
		k = append(k, id)
	}
	sort.Slice(k, func(i, j int) bool { return k[i] < k[j] })
	return k
}

func (w *world) check() bool {
	c := w.c
	// category listings of every bundle path (incl. root)
	for _, p := range w.paths(2) {
		n := w.find(p)
		var fs []rc.Field
		if len(p) > 0 {
			fs = append(fs, pathField(p))
		}
		rep, ok := w.cl.Call(370, fs...)
		if !ok || rep.Err != 0 {
			c.Fail("C18/cat-list/failed", "after step %d: category list of %q failed: %v", w.step, p, rep)
			return false
		}
		got := map[string]rc.CatItem{}
		for _, d := range rep.GetAll(323) {
			it, err := rc.DecodeCatItem(d)
			if err != nil {
				c.Fail("C18/cat-list/unparseable", "after step %d: category list item of %q: %v (%x)\nhistory:\n%s", w.step, p, err, d, w.hist())
				return false
			}
			if _, dup := got[string(it.Name)]; dup {
				c.Fail("C18/cat-list/duplicate", "after step %d: %q listed twice under %q", w.step, it.Name, p)
				return false
			}
			got[string(it.Name)] = it
		}
		for name, k := range n.kids {
			it, ok := got[name]
			if !ok {
				c.Fail("C18/cat-list/missing", "after step %d: child %q of %q is not listed (listed: %v)\nhistory:\n%s", w.step, name, p, names(got), w.hist())
				return false
			}
			if int(it.Type) != k.typ || int(it.Count) != len(k.kids)+len(k.arts) {
				c.Fail("C18/cat-list/differs", "after step %d: child %q of %q listed as type %d count %d; model type %d count %d\nhistory:\n%s", w.step, name, p, it.Type, it.Count, k.typ, len(k.kids)+len(k.arts), w.hist())
				return false
			}
		}
		for name := range got {
			if n.kids[name] == nil {
				c.Fail("C18/cat-list/phantom", "after step %d: listing of %q shows %q (type %d) which was never created (or was deleted)\nhistory:\n%s", w.step, p, name, got[name].Type, w.hist())
				return false
			}
		}
		c.Count("cat_listings", 1)
	}
	// article lists and articles (bundles can hold articles too)
	for _, p := range w.paths(0) {
		if len(p) == 0 {
			continue
		}
		n := w.find(p)
		listed, order, ok := w.listIDs(p)
		if !ok {
			return false
		}
		if !sort.SliceIsSorted(order, func(i, j int) bool { return order[i] < order[j] }) {
			c.Fail("C18/art-list/unsorted", "after step %d: article list of %q not in ID order: %v", w.step, p, order)
			return false
		}
		if len(listed) != len(n.arts) {
			c.Fail("C18/art-list/count", "after step %d: article list of %q has ids %v, model has %v\nhistory:\n%s", w.step, p, order, modelIDs(n), w.hist())
			return false
		}
		for id, a := range n.arts {
			e, ok := listed[id]
			if !ok {
				c.Fail("C18/art-list/missing", "after step %d: article %d missing from the list of %q (listed %v)\nhistory:\n%s", w.step, id, p, order, w.hist())
				return false
			}
			if string(e.Title) != a.title || string(e.Poster) != a.poster || e.Parent != a.parent || int(e.Size) != len(a.body)&0xffff || string(e.Flavor) != "text/plain" {
				c.Fail("C18/art-list/differs", "after step %d: list entry %d of %q: titleLen=%d poster=%q parent=%d size=%d; model titleLen=%d poster=%q parent=%d size=%d\nhistory:\n%s",
					w.step, id, p, len(e.Title), e.Poster, e.Parent, e.Size, len(a.title), a.poster, a.parent, len(a.body), w.hist())
				return false
			}
			idf := rc.U32(int(id))
			rep, ok := w.cl.Call(400, pathField(p), rc.F(326, idf), rc.FS(327, "text/plain"))
			if !ok || rep.Err != 0 {
				c.Fail("C18/get-article/failed", "after step %d: get-article %d of %q failed: %v", w.step, id, p, rep)
				return false
			}
			title, _ := rep.Get(328)
			poster, _ := rep.Get(329)
			date, _ := rep.Get(330)
			body, hasBody := rep.Get(333)
			prev, _ := rep.Get(331)
			next, _ := rep.Get(332)
			par, _ := rep.Get(335)
			first, _ := rep.Get(336)
			if !hasBody || string(title) != a.title || string(poster) != a.poster || string(body) != a.body {
				c.Fail("C18/get-article/content", "after step %d: article %d of %q: titleLen=%d poster=%q bodyLen=%d; model titleLen=%d poster=%q bodyLen=%d\nhistory:\n%s",
					w.step, id, p, len(title), poster, len(body), len(a.title), a.poster, len(a.body), w.hist())
				return false
			}
			if a.date == nil {
				if len(date) != 8 || int(binary.BigEndian.Uint16(date[0:2])) != time.Now().Year() && int(binary.BigEndian.Uint16(date[0:2])) != time.Now().Year()-1 {
					c.Fail("C18/get-article/date", "article %d of %q has date %x", id, p, date)
					return false
				}
				a.date = date
			} else if !bytes.Equal(a.date, date) {
				c.Fail("C18/get-article/date-changed", "after step %d: date of article %d of %q changed from %x to %x\nhistory:\n%s", w.step, id, p, a.date, date, w.hist())
				return false
			}
			if !bytes.Equal(e.Date[:], a.date) {
				c.Fail("C18/art-list/date", "after step %d: list entry %d of %q carries date %x, article says %x", w.step, id, p, e.Date, a.date)
				return false
			}
			if u32(par) != a.parent || u32(prev) != a.prev || u32(next) != a.next || u32(first) != a.first {
				c.Fail("C18/get-article/links", "after step %d: article %d of %q links parent=%d prev=%d next=%d firstChild=%d; model parent=%d prev=%d next=%d firstChild=%d\nhistory:\n%s",
					w.step, id, p, u32(par), u32(prev), u32(next), u32(first), a.parent, a.prev, a.next, a.first, w.hist())
				return false
			}
			c.Count("articles_checked", 1)
		}
	}
	return true
}

func names(m map[string]rc.CatItem) []string {
	var s []string
	for k := range m {
		s = append(s, k)
	}
	sort.Strings(s)
	return s
}

func modelIDs(n *node) []uint32 {
	var k []uint32
	for id := range n.arts {
		k = append(k, id)
	}
	sort.Slice(k, func(i, j int) bool { return k[i] < k[j] })
	return k
}

// checkSecondStore opens a second store on the file and compares it with the model.
func (w *world) checkSecondStore() bool {
	st, err := verifshim.NewThreadedNewsYAML(filepath.Join(w.srv.ConfigDir, "ThreadedNews.yaml"))
	if err != nil {
		w.c.Fail("C18/second-store/load-failed", "after step %d: a second store cannot load the news file: %v\nhistory:\n%s", w.step, err, w.hist())
		return false
	}
	for _, p := range w.paths(0) {
		n := w.find(p)
		if n.typ == 2 {
			got := map[string]bool{}
			for _, cat := range st.GetCategories(p) {
				got[cat.Name] = true
				k := n.kids[cat.Name]
				if k == nil {
					w.c.Fail("C18/second-store/phantom", "after step %d: reloaded file shows %q under %q which the model lacks\nhistory:\n%s", w.step, cat.Name, p, w.hist())
					return false
				}
				if int(cat.Type[1]) != k.typ {
					w.c.Fail("C18/second-store/type", "reloaded %q has type %v, model %d", cat.Name, cat.Type, k.typ)
					return false
				}
			}
			for name := range n.kids {
				if !got[name] {
					w.c.Fail("C18/second-store/missing", "after step %d: reloaded file lacks %q under %q\nhistory:\n%s", w.step, name, p, w.hist())
					return false
				}
			}
		} else {
			for id, a := range n.arts {
				g := st.GetArticle(p, id)
				if g == nil || g.Title != a.title || g.Poster != a.poster || g.Data != a.body || !bytes.Equal(g.Date[:], a.date) ||
					binary.BigEndian.Uint32(g.ParentArt[:]) != a.parent || binary.BigEndian.Uint32(g.PrevArt[:]) != a.prev || binary.BigEndian.Uint32(g.NextArt[:]) != a.next {
					w.c.Fail("C18/second-store/article", "after step %d: article %d of %q reloaded from the file differs from the model (present=%v)\nhistory:\n%s", w.step, id, p, g != nil, w.hist())
					return false
				}
			}
		}
	}
	w.c.Count("second_store_checks", 1)
	return true
}

func runCase(c *core.Case) {
	srv, err := fixture.New(fixture.Options{})
	if err != nil {
		c.Unsure("fixture: %v", err)
		return
	}
	defer srv.Close()
	if c.Index%3 == 2 {
		// what a crash between writing and renaming the news file's temporary copy leaves behind
		os.WriteFile(filepath.Join(srv.ConfigDir, "ThreadedNews.yaml.tmp"), []byte("Categories:\n"+strings.Repeat("  # stale temporary news file of a crashed server\n", 3000)), 0644)
		c.Count("stale_news_temp_file", 1)
	}
	poster := "Newsie"
	switch c.R.Intn(4) {
	case 0:
		poster = string(c.R.Printable(255))
	case 1:
		poster = string(c.R.Printable(200 + c.R.Intn(56)))
	}
	poster = strings.TrimSpace(poster) + "."
	if len(poster) > 255 {
		poster = poster[:255]
	}
	cl, err := refclient.LoginAs(srv, "10.18.0.1:1", "admin", "", poster)
	if err != nil {
		c.Unsure("login: %v", err)
		return
	}
	w := &world{c: c, srv: srv, cl: cl, poster: poster, kinds: map[string]int{}, root: &node{typ: 2, kids: map[string]*node{}, arts: map[uint32]*art{}}}
	steps := 15 + c.R.Intn(21)
	if c.Index%12 == 7 {
		// the store of a long-lived server: the history starts with twenty articles of 55-60 KB (a news file above 1 MiB)
		// and a reload, and goes on from there
		w.bigBodies = true
		w.forced = []string{"new-category"}
		for i := 0; i < 20; i++ {
			w.forced = append(w.forced, "post")
		}
		w.forced = append(w.forced, "reload", "post")
		steps = len(w.forced) + 6
		c.Count("histories_with_a_news_file_above_1MiB", 1)
	}
	for w.step = 1; w.step <= steps; w.step++ {
		if !w.doStep() || !w.check() {
			break
		}
		c.Count("steps", 1)
		if w.step%7 == 0 || w.step == steps {
			if !w.checkSecondStore() {
				break
			}
		}
	}
	var ks []string
	for k := range w.kinds {
		ks = append(ks, k)
	}
	sort.Strings(ks)
	class := ""
	if w.kinds["post"]+w.kinds["reply"] > 0 && w.kinds["delete-article"]+w.kinds["delete-item"] > 0 {
		class = strings.Join(ks, "+")
	}
	sample := w.log
	if len(sample) > 8 {
		sample = sample[:8]
	}
	c.Describe(class, map[string]any{"steps": w.step - 1, "first_operations": sample})
}
