// Package c19: message board and agreement are served whole and lose no post.
package c19

import (
	"fmt"
	"os"
	"path/filepath"
	"strings"
	"sync"
	"sync/atomic"
	"time"

	"github.com/anishathalye/porcupine"
	"github.com/jhalter/mobius/verifshim"

	"verifharness/internal/core"
	"verifharness/internal/fixture"
	"verifharness/internal/refclient"
	rc "verifharness/internal/refcodec"
)

func init() {
	core.Register(&core.Simple{
		Id: "C19", Lvl: "exploration", Quick: 40, Thorough: 1000, PerBatch: 10, Width: 3, Race: true, Timeout: 1500,
		RuleText: "each case runs the real FlatNews, Agreement, handlers and processOutbox in a race-detector build: 2-8 posters, 2-8 readers and 2-6 clients that keep logging in run concurrently (in every second case together with a loop reloading the board file, as SIGHUP does) against a board of 0-60 KiB and an agreement of 0-60 KiB; every post body carries a unique id; call and return of every operation are stamped from one logical clock at the client boundary. Oracles: the final board must be a newest-first sequence of all acknowledged posts in the protocol's post format followed by the initial text; every read must be a post-boundary suffix of that final text containing every post acknowledged before the read was issued and none issued after it returned; porcupine checks the same history against a sequential model (post prepends, read returns the state); every agreement delivery equals the agreement (in a quarter of the cases the agreement is afterwards replaced by a shorter one and reloaded, and the next logins must be shown exactly that); every connected user receives each post announcement exactly once; MessageBoard.txt equals the final board. distinct = (posters, readers, board size class, number of reads that overlapped a post); non-trivial = at least one read overlapped a post or another read",
		Case:     runCase,
	})
}

type op struct {
	client    int
	kind      string // post | read | agreement
	id        string // post id
	call, ret int64
	out       string
	ok        bool
}

const sep = "__________________________________________________________"

func postText(name, body string) string {
	return "From " + name + " (" + fixture.DateFormat + "):\r\r" + body + "\r\r" + sep + "\r"
}

type pin struct {
	Kind string
	ID   string
}

func runCase(c *core.Case) {
	r := c.R
	nPost, nRead, nLogin := 2+r.Intn(7), 2+r.Intn(7), 2+r.Intn(5)
	perPoster := 4 + r.Intn(10)
	perReader := 10 + r.Intn(25)
	boardSize := core.Pick(r, []int{0, 100, 5000, 20000, 40000, 58000})
	agreeSize := core.Pick(r, []int{0, 50, 3000, 33000, 60000})
	// the board must stay inside one 64 KiB field: bound the growth
	maxGrowth := nPost * perPoster * 120
	if boardSize+maxGrowth > 64000 {
		boardSize = 64000 - maxGrowth
		if boardSize < 0 {
			boardSize = 0
		}
	}
	// Mac-Roman text: bytes above 0x7f that are not valid UTF-8 (accented letters, (c), curly quotes) must pass through
	initial := strings.Repeat("initial b\x8eard lin\x8e\r", boardSize/19)
	agreement := strings.Repeat("agr\x8eement \xa9 \xd2line\xd3 012345\r", agreeSize/26)
	srv, err := fixture.New(fixture.Options{Board: initial, Agreement: agreement, Accounts: []fixture.Account{
		{Login: "guest", Name: "guest", Access: fixture.GuestBits()},
		{Login: "admin", Name: "admin", Access: rc.AllBits()},
		{Login: "agree", Name: "agree", Access: rc.Bitmap(20, 21, 9, 10, 26)}, // no-agreement bit clear: receives the agreement
	}})
	if err != nil {
		c.Unsure("fixture: %v", err)
		return
	}
	if c.Index%3 == 1 {
		// what a crash between writing and renaming the board's temporary file leaves behind: a stale temporary file
		// longer than anything this run will write
		os.WriteFile(filepath.Join(srv.ConfigDir, "MessageBoard.txt.tmp"), []byte(strings.Repeat("stale temporary board of a crashed server\r", 2500)), 0644)
		c.Count("stale_board_temp_file", 1)
	}
	defer srv.Close()
	var clock atomic.Int64
	var mu sync.Mutex
	var ops []op
	rec := func(o op) { mu.Lock(); ops = append(ops, o); mu.Unlock() }
	var posters, readers []*refclient.Client
	for i := 0; i < nPost; i++ {
		cl, err := refclient.LoginAs(srv, fmt.Sprintf("10.19.1.%d:1", i+1), "agree", "", fmt.Sprintf("P%d", i))
		if err != nil {
			c.Unsure("login: %v", err)
			return
		}
		posters = append(posters, cl)
	}
	for i := 0; i < nRead; i++ {
		cl, err := refclient.LoginAs(srv, fmt.Sprintf("10.19.2.%d:1", i+1), "agree", "", fmt.Sprintf("R%d", i))
		if err != nil {
			c.Unsure("login: %v", err)
			return
		}
		readers = append(readers, cl)
	}
	srv.Quiesce(refclient.Watchdog)
	var wg sync.WaitGroup
	for i, cl := range posters {
		wg.Add(1)
		go func(i int, cl *refclient.Client) {
			defer wg.Done()
			rr := core.NewRand(c.Seed, uint64(c.Index), uint64(i), 1)
			for k := 0; k < perPoster; k++ {
				id := fmt.Sprintf("post-%d-%d-", i, k) + string(rr.Printable(rr.Intn(60)))
				o := op{client: i, kind: "post", id: id, call: clock.Add(1)}
				rep, ok := cl.Call(103, rc.FS(101, id))
				o.ret = clock.Add(1)
				o.ok = ok && rep.Err == 0
				rec(o)
				if rr.Chance(1, 3) {
					time.Sleep(time.Duration(rr.Intn(300)) * time.Microsecond)
				}
			}
		}(i, cl)
	}
	for i, cl := range readers {
		wg.Add(1)
		go func(i int, cl *refclient.Client) {
			defer wg.Done()
			rr := core.NewRand(c.Seed, uint64(c.Index), uint64(i), 2)
			for k := 0; k < perReader; k++ {
				o := op{client: 100 + i, kind: "read", call: clock.Add(1)}
				rep, ok := cl.Call(101)
				o.ret = clock.Add(1)
				d, has := rep.Get(101)
				o.ok = ok && rep.Err == 0 && has
				o.out = string(d)
				rec(o)
				if rr.Chance(1, 4) {
					time.Sleep(time.Duration(rr.Intn(200)) * time.Microsecond)
				}
			}
		}(i, cl)
	}
	// in half of the cases an operator-style reload of the board file (SIGHUP / API reload) keeps running too
	stopReload := make(chan struct{})
	reloads := 0
	var rwg sync.WaitGroup
	if fn, ok := srv.S.MessageBoard.(*verifshim.FlatNews); ok && c.Index%2 == 1 {
		rwg.Add(1)
		go func() {
			defer rwg.Done()
			for {
				select {
				case <-stopReload:
					return
				default:
				}
				fn.Reload()
				reloads++
				time.Sleep(150 * time.Microsecond)
			}
		}()
	}
	var loginClients []*refclient.Client
	var lmu sync.Mutex
	for i := 0; i < nLogin; i++ {
		wg.Add(1)
		go func(i int) {
			defer wg.Done()
			for k := 0; k < 6; k++ {
				o := op{client: 200 + i, kind: "agreement", call: clock.Add(1)}
				cl, err := refclient.LoginAs(srv, fmt.Sprintf("10.19.3.%d:%d", i+1, k+1), "agree", "", "")
				if err != nil {
					o.ret = clock.Add(1)
					rec(o)
					continue
				}
				// the agreement transaction follows the login reply; wait for it by a harmless round trip
				cl.Call(500)
				o.ret = clock.Add(1)
				for _, t := range cl.Inbox() {
					if t.Type == 109 {
						d, _ := t.Get(101)
						o.out, o.ok = string(d), true
					}
				}
				rec(o)
				lmu.Lock()
				loginClients = append(loginClients, cl)
				lmu.Unlock()
			}
		}(i)
	}
	wg.Wait()
	close(stopReload)
	rwg.Wait()
	c.Count("board_reloads_during_run", reloads)
	if !srv.Quiesce(4 * refclient.Watchdog) {
		c.Unsure("no quiescence")
		return
	}
	// ---- final board ----
	rep, ok := readers[0].Call(101)
	if !ok {
		c.Unsure("final read failed")
		return
	}
	fb, _ := rep.Get(101)
	final := string(fb)
	acked := map[string]op{}
	called := map[string]op{}
	for _, o := range ops {
		if o.kind == "post" {
			called[o.id] = o
			if o.ok {
				acked[o.id] = o
			} else {
				c.Fail("C19/post-not-acknowledged", "post %q got no (or an error) reply", o.id)
			}
		}
	}
	// parse the final board into posts (newest first) + initial
	parse := func(text string) (ids []string, rest string, err error) {
		for {
			if !strings.HasPrefix(text, "From P") {
				return ids, text, nil
			}
			end := strings.Index(text, "\r\r"+sep+"\r")
			if end < 0 {
				return ids, text, fmt.Errorf("post without delimiter")
			}
			whole := text[:end+2+len(sep)+1]
			hdrEnd := strings.Index(whole, "):\r\r")
			if hdrEnd < 0 {
				return ids, text, fmt.Errorf("post without header")
			}
			body := whole[hdrEnd+4 : end]
			name := whole[5:strings.Index(whole, " (")]
			if whole != postText(name, body) {
				return ids, text, fmt.Errorf("post %q not in the protocol's format", body)
			}
			ids = append(ids, body)
			text = text[len(whole):]
		}
	}
	finalIDs, rest, perr := parse(final)
	if perr != nil || rest != initial {
		c.Fail("C19/final-board-malformed", "final board is not <posts newest first><initial text>: parse error %v; %d trailing bytes vs %d initial bytes (equal: %v); unparsed text starts %q", perr, len(rest), len(initial), rest == initial, rest[:min(300, len(rest))])
		return
	}
	pos := map[string]int{}
	for i, id := range finalIDs {
		if _, dup := pos[id]; dup {
			c.Fail("C19/post-duplicated", "post %q appears twice on the board", id)
			return
		}
		pos[id] = i
	}
	for id := range acked {
		if _, ok := pos[id]; !ok {
			c.Fail("C19/post-lost", "acknowledged post %q is not on the final board (%d posters posting concurrently, %d posts kept of %d acknowledged)", id, nPost, len(finalIDs), len(acked))
			return
		}
	}
	for _, id := range finalIDs {
		if _, ok := called[id]; !ok {
			c.Fail("C19/post-unknown", "board holds a post %q nobody sent", id)
			return
		}
	}
	// posts of one poster keep their order; a post acknowledged before another was issued is older
	for a, oa := range acked {
		for b, ob := range called {
			if oa.ret < ob.call && pos[a] < pos[b] && ob.ok {
				c.Fail("C19/post-order", "post %q was acknowledged before %q was issued but appears newer on the board", a, b)
				return
			}
		}
	}
	// ---- every read is a boundary suffix consistent with real time ----
	offsets := make([]int, len(finalIDs)+1) // offsets[i] = start of suffix holding finalIDs[i:]
	{
		off := 0
		text := final
		for i, id := range finalIDs {
			offsets[i] = off
			n := len(postText(called[id].nameOf(), id))
			off += n
			text = text[n:]
		}
		offsets[len(finalIDs)] = off
	}
	overlapping := 0
	for _, o := range ops {
		if o.kind != "read" {
			continue
		}
		if !o.ok {
			c.Fail("C19/read-failed", "get-messages got no data reply")
			return
		}
		k := -1
		for i, off := range offsets {
			if final[off:] == o.out {
				k = i
				break
			}
		}
		if k < 0 {
			ids, rst, e := parse(o.out)
			c.Fail("C19/read-not-a-board-state", "a get-messages reply (%d bytes) is not any state the board ever had (final board %d bytes): it parses to %d posts + %d trailing bytes (initial text has %d), parse error %v; %d readers and %d posters were active", len(o.out), len(final), len(ids), len(rst), len(initial), e, nRead, nPost)
			return
		}
		included := map[string]bool{}
		for _, id := range finalIDs[k:] {
			included[id] = true
		}
		overl := false
		for id, p := range called {
			if p.ok && p.ret < o.call && !included[id] {
				c.Fail("C19/read-misses-acknowledged-post", "a read issued after post %q had been acknowledged does not contain it", id)
				return
			}
			if p.call > o.ret && included[id] {
				c.Fail("C19/read-from-the-future", "a read contains post %q which was issued after the read returned", id)
				return
			}
			if p.call < o.ret && p.ret > o.call {
				overl = true
			}
		}
		if overl {
			overlapping++
		}
	}
	// ---- agreement ----
	nAgree := 0
	for _, o := range ops {
		if o.kind == "agreement" && o.ok {
			nAgree++
			if o.out != agreement {
				c.Fail("C19/agreement-not-whole", "a client being shown the agreement at login received %d bytes, the agreement has %d (prefix: %v); %d clients were logging in concurrently", len(o.out), len(agreement), strings.HasPrefix(agreement, o.out), nLogin)
				return
			}
		}
	}
	// ---- the operator replaces the agreement by a shorter one and reloads it (no login in flight) ----
	if ag, ok := srv.S.Agreement.(*verifshim.Agreement); ok && c.Index%4 == 3 && len(agreement) > 100 {
		short := agreement[:len(agreement)/3]
		os.WriteFile(filepath.Join(srv.ConfigDir, "Agreement.txt"), []byte(short), 0644)
		done := make(chan error, 1)
		go func() { done <- ag.Reload() }()
		select {
		case <-done:
		case <-time.After(20 * time.Second):
			c.Fail("C19/agreement-reload-wedged", "reloading a shorter agreement (%d -> %d bytes) after %d logins had been shown the old one did not return within 20 s", len(agreement), len(short), nAgree)
			return
		}
		c.Count("agreement_reloads", 1)
		for k := 0; k < 2; k++ {
			cl, err := refclient.LoginAs(srv, fmt.Sprintf("10.19.4.%d:1", k+1), "agree", "", "")
			if err != nil {
				c.Fail("C19/agreement-after-reload", "login after the agreement was reloaded failed: %v", err)
				return
			}
			cl.Call(500)
			got, seen := "", false
			for _, t := range cl.Inbox() {
				if t.Type == 109 {
					d, _ := t.Get(101)
					got, seen = string(d), true
				}
			}
			if !seen || got != short {
				c.Fail("C19/agreement-after-reload", "after the agreement was replaced by a shorter one and reloaded, a client logging in was shown %d bytes (delivered: %v), the agreement now has %d", len(got), seen, len(short))
				return
			}
		}
	}
	// ---- announcements: every long-lived client got each post exactly once ----
	for ci, cl := range append(append([]*refclient.Client{}, posters...), readers...) {
		seen := map[string]int{}
		for _, t := range cl.Inbox() {
			if t.Type == 102 {
				d, _ := t.Get(101)
				ids, _, _ := parse(string(d))
				for _, id := range ids {
					seen[id]++
				}
			}
		}
		for id := range acked {
			if seen[id] != 1 {
				c.Fail("C19/announcement-count", "connected client %d received the announcement of post %q %d times", ci, id, seen[id])
				return
			}
		}
	}
	// ---- on disk ----
	disk, _ := os.ReadFile(filepath.Join(srv.ConfigDir, "MessageBoard.txt"))
	if string(disk) != final {
		c.Fail("C19/disk-differs", "MessageBoard.txt (%d bytes) differs from the board served (%d bytes) at quiescence", len(disk), len(final))
	}
	// ---- porcupine on the same history ----
	var pops []porcupine.Operation
	for _, o := range ops {
		switch o.kind {
		case "post":
			if o.ok {
				pops = append(pops, porcupine.Operation{ClientId: o.client, Input: pin{"post", o.id}, Call: o.call, Output: "", Return: o.ret})
			}
		case "read":
			ids, rst, e := parse(o.out)
			out := strings.Join(ids, "|")
			if e != nil || rst != initial {
				out = "garbage"
			}
			pops = append(pops, porcupine.Operation{ClientId: o.client, Input: pin{"read", ""}, Call: o.call, Output: out, Return: o.ret})
		}
	}
	model := porcupine.Model{
		Init: func() interface{} { return "" },
		Step: func(state, input, output interface{}) (bool, interface{}) {
			in := input.(pin)
			st := state.(string)
			if in.Kind == "post" {
				if st == "" {
					return true, in.ID
				}
				return true, in.ID + "|" + st
			}
			return output.(string) == st, st
		},
	}
	switch porcupine.CheckOperationsTimeout(model, pops, 20*time.Second) {
	case porcupine.Illegal:
		c.Fail("C19/not-linearizable", "porcupine: the recorded history of %d posts and reads is not linearizable against the sequential board model", len(pops))
	case porcupine.Unknown:
		c.Count("porcupine_timeouts", 1)
	default:
		c.Count("porcupine_ok", 1)
	}
	c.Count("operations", len(ops))
	c.Count("reads_overlapping_a_post", overlapping)
	c.Count("agreements_delivered", nAgree)
	c.Count("posts_acknowledged", len(acked))
	class := ""
	if overlapping > 0 {
		class = fmt.Sprintf("p%d/r%d/board%dK/overlap%d", nPost, nRead, boardSize/10000*10, min(overlapping/10, 5))
	}
	c.Describe(class, map[string]any{"posters": nPost, "readers": nRead, "login_clients": nLogin, "board_bytes": len(initial), "agreement_bytes": len(agreement), "operations": len(ops), "reads_overlapping_a_post": overlapping})
}

func (o op) nameOf() string { return fmt.Sprintf("P%d", o.client) }
