// Package c20: a crash never leaves persistent state torn (fault enumeration with strace SIGKILL injection).
package c20

import (
	"bufio"
	"encoding/binary"
	"encoding/hex"
	"encoding/json"
	"fmt"
	"io"
	"os"
	"os/exec"
	"path/filepath"
	"regexp"
	"sort"
	"strconv"
	"strings"
	"time"

	"github.com/jhalter/mobius/hotline"
	"github.com/jhalter/mobius/verifshim"
	"golang.org/x/crypto/bcrypt"

	"verifharness/internal/core"
	"verifharness/internal/fixture"
	rc "verifharness/internal/refcodec"
)

type prop struct{}

func init() { core.Register(prop{}) }

func (prop) ID() string    { return "C20" }
func (prop) Level() string { return "fault_enumeration" }
func (prop) Rule() string {
	return "each sequence is 10-14 generated persistent updates (message-board posts; news bundle/category creation, article post/reply/delete, item delete; account create, modify, rename, delete; temporary and permanent bans) executed by a child process that calls the real stores from its main goroutine locked to the main OS thread and prints BEGIN i / ACK i around each update. A reference run under strace (main thread only) yields the ordered list of file system calls (openat, write, close, rename*, unlink*, ftruncate, fsync, link*, mkdir*); then FOR EVERY call j after the first BEGIN the same sequence is re-run on a fresh copy of the directory with SIGKILL injected on entry to call j (exhaustive per sequence). A fresh process then loads the directory with the real constructors; every store must load and the state must equal the reference model after m updates (m = ACKs seen) or, only if BEGIN m+1 was printed, after m+1. distinct = (store and update kind in flight, system call killed); non-trivial = the kill landed between BEGIN and ACK of an update"
}

// Exhaustive: every traced system call of every generated sequence is a crash point.
func (prop) Exhaustive() string {
	return "per generated update sequence: every traced file system call boundary after the first BEGIN is killed once (the space of sequences itself is sampled from the seed)"
}

type seqArgs struct {
	Seq int `json:"seq"`
}

func (prop) Plan(tier string, seed int64) []core.Batch {
	n := 12
	if tier == "thorough" {
		n = 120
	}
	var bs []core.Batch
	for i := 0; i < n; i++ {
		a, _ := json.Marshal(seqArgs{i})
		bs = append(bs, core.Batch{Name: fmt.Sprintf("sequence-%d", i), Args: a, Timeout: 1500})
	}
	return bs
}

// ---- operations ----

type Op struct {
	Kind     string   `json:"kind"`
	Path     []string `json:"path,omitempty"`
	Name     string   `json:"name,omitempty"`
	Title    string   `json:"title,omitempty"`
	Body     string   `json:"body,omitempty"`
	Parent   uint32   `json:"parent,omitempty"`
	ID       uint32   `json:"id,omitempty"`
	Login    string   `json:"login,omitempty"`
	NewLogin string   `json:"new_login,omitempty"`
	Access   string   `json:"access,omitempty"`
	PW       string   `json:"pw,omitempty"`
	IP       string   `json:"ip,omitempty"`
	Until    string   `json:"until,omitempty"`
}

type Seq struct {
	Ops []Op     `json:"ops"`
	IPs []string `json:"ips"`
}

// canonical state as printed by the loader / computed by the model
type State struct {
	Error    string                  `json:"error,omitempty"`
	Board    string                  `json:"board"`
	News     map[string]NewsNode     `json:"news"`
	Accounts map[string]AccountState `json:"accounts"`
	Bans     map[string]string       `json:"bans"`
}

type NewsNode struct {
	Type     int                  `json:"type"`
	Articles map[uint32][4]string `json:"articles,omitempty"` // id -> title, poster, body, parent
}

type AccountState struct {
	Name   string `json:"name"`
	Access string `json:"access"`
	Hash   string `json:"hash,omitempty"`
	PW     string `json:"pw,omitempty"` // model only
}

func clone(s State) State {
	b, _ := json.Marshal(s)
	var o State
	json.Unmarshal(b, &o)
	return o
}

func key(path []string) string { return strings.Join(path, "\x1f") }

// apply computes the model state after op.
func apply(s State, op Op) State {
	n := clone(s)
	switch op.Kind {
	case "board-post":
		n.Board = op.Body + n.Board
	case "news-bundle":
		n.News[key(append(op.Path, op.Name))] = NewsNode{Type: 2}
	case "news-category":
		n.News[key(append(op.Path, op.Name))] = NewsNode{Type: 3, Articles: map[uint32][4]string{}}
	case "news-post":
		nd := n.News[key(op.Path)]
		if nd.Articles == nil {
			nd.Articles = map[uint32][4]string{}
		}
		var max uint32
		for id := range nd.Articles {
			if id > max {
				max = id
			}
		}
		nd.Articles[max+1] = [4]string{op.Title, "poster", op.Body, fmt.Sprint(op.Parent)}
		n.News[key(op.Path)] = nd
	case "news-delete-article":
		nd := n.News[key(op.Path)]
		delete(nd.Articles, op.ID)
		n.News[key(op.Path)] = nd
	case "news-delete-item":
		pre := key(op.Path)
		for k := range n.News {
			if k == pre || strings.HasPrefix(k, pre+"\x1f") {
				delete(n.News, k)
			}
		}
	case "account-create":
		n.Accounts[op.Login] = AccountState{Name: op.Name, Access: op.Access, PW: op.PW}
	case "account-update":
		a := n.Accounts[op.Login]
		a.Name, a.Access, a.PW = op.Name, op.Access, op.PW
		delete(n.Accounts, op.Login)
		n.Accounts[op.NewLogin] = a
	case "account-delete":
		delete(n.Accounts, op.Login)
	case "ban":
		n.Bans[op.IP] = op.Until
	}
	return n
}

// valid tells whether op can be applied to model state s (used when an update is abandoned after a crash and later
// updates of the sequence may have depended on it).
func valid(s State, op Op) bool {
	switch op.Kind {
	case "news-bundle", "news-category":
		if len(op.Path) > 0 {
			if nd, ok := s.News[key(op.Path)]; !ok || nd.Type != 2 {
				return false
			}
		}
		_, exists := s.News[key(append(append([]string{}, op.Path...), op.Name))]
		return !exists
	case "news-post":
		nd, ok := s.News[key(op.Path)]
		if !ok || nd.Type != 3 {
			return false
		}
		if op.Parent != 0 {
			_, ok = nd.Articles[op.Parent]
		}
		return ok
	case "news-delete-article":
		nd, ok := s.News[key(op.Path)]
		if !ok {
			return false
		}
		_, ok = nd.Articles[op.ID]
		return ok
	case "news-delete-item":
		_, ok := s.News[key(op.Path)]
		return ok
	case "account-create":
		_, ok := s.Accounts[op.Login]
		return !ok
	case "account-update":
		if _, ok := s.Accounts[op.Login]; !ok {
			return false
		}
		_, taken := s.Accounts[op.NewLogin]
		return op.NewLogin == op.Login || !taken
	case "account-delete":
		_, ok := s.Accounts[op.Login]
		return ok
	}
	return true
}

func genSeq(r *core.Rand) (Seq, State) {
	init := State{Board: "initial board\r", News: map[string]NewsNode{"cat": {Type: 3, Articles: map[uint32][4]string{}}},
		Accounts: map[string]AccountState{
			"guest": {Name: "guest", Access: hex.EncodeToString(rc.Bitmap(fixture.DefinedBits()[:5]...)), PW: ""},
			"admin": {Name: "admin", Access: hex.EncodeToString(rc.Bitmap(fixture.DefinedBits()...)), PW: ""},
		}, Bans: map[string]string{}}
	if r.Chance(1, 3) {
		// the board of a long-lived server: 70-95 KB of old posts, more than the 64 KiB one reply can carry
		var sb strings.Builder
		for i := 0; sb.Len() < 70000+r.Intn(25000); i++ {
			sb.WriteString(fmt.Sprintf("From old-timer (Jan01 00:%02d):\r\rold post %d %s\r\r__________________________________________________________\r", i%60, i, r.Printable(600+r.Intn(600))))
		}
		init.Board = sb.String()
	}
	var seq Seq
	st := init
	nOps := 10 + r.Intn(5)
	uniq := 0
	acc := func() string {
		var ls []string
		for l := range st.Accounts {
			if l != "guest" && l != "admin" {
				ls = append(ls, l)
			}
		}
		sort.Strings(ls)
		if len(ls) == 0 {
			return ""
		}
		return core.Pick(r, ls)
	}
	cats := func(t int) [][]string {
		var out [][]string
		var ks []string
		for k := range st.News {
			ks = append(ks, k)
		}
		sort.Strings(ks)
		for _, k := range ks {
			if st.News[k].Type == t {
				out = append(out, strings.Split(k, "\x1f"))
			}
		}
		return out
	}
	for len(seq.Ops) < nOps {
		uniq++
		var op Op
		switch r.Intn(12) {
		case 0, 1, 2:
			op = Op{Kind: "board-post", Body: fmt.Sprintf("From someone (=date=):\r\rpost %d %s\r\r____\r", uniq, r.Printable(r.Intn(200)))}
		case 3:
			var parent []string
			if bs := cats(2); len(bs) > 0 && r.Bool() {
				parent = core.Pick(r, bs)
			}
			op = Op{Kind: core.Pick(r, []string{"news-bundle", "news-category"}), Path: parent, Name: fmt.Sprintf("n%d", uniq)}
		case 4, 5:
			cs := cats(3)
			p := core.Pick(r, cs)
			op = Op{Kind: "news-post", Path: p, Title: fmt.Sprintf("title %d", uniq), Body: string(r.Printable(r.Intn(300)))}
			var ids []uint32
			for id := range st.News[key(p)].Articles {
				ids = append(ids, id)
			}
			sort.Slice(ids, func(i, j int) bool { return ids[i] < ids[j] })
			if len(ids) > 0 && r.Bool() {
				op.Parent = core.Pick(r, ids)
			}
		case 6:
			cs := cats(3)
			p := core.Pick(r, cs)
			var ids []uint32
			for id := range st.News[key(p)].Articles {
				ids = append(ids, id)
			}
			if len(ids) == 0 {
				continue
			}
			sort.Slice(ids, func(i, j int) bool { return ids[i] < ids[j] })
			op = Op{Kind: "news-delete-article", Path: p, ID: core.Pick(r, ids)}
		case 7:
			var all [][]string
			all = append(all, cats(2)...)
			all = append(all, cats(3)...)
			if len(all) <= 1 {
				continue
			}
			p := core.Pick(r, all)
			if key(p) == "cat" {
				continue
			}
			op = Op{Kind: "news-delete-item", Path: p}
		case 8:
			op = Op{Kind: "account-create", Login: fmt.Sprintf("user%d", uniq), Name: core.Pick(r, []string{"Name " + string(r.Printable(5)), "Name " + string(r.Printable(5)), ""}), Access: hex.EncodeToString(rc.Bitmap(core.Pick(r, fixture.DefinedBits()), 2)), PW: fmt.Sprintf("pw%d", uniq)}
		case 9:
			l := acc()
			if l == "" {
				continue
			}
			nl := l
			if r.Bool() {
				nl = fmt.Sprintf("renamed%d", uniq)
			}
			op = Op{Kind: "account-update", Login: l, NewLogin: nl, Name: core.Pick(r, []string{"Changed " + string(r.Printable(5)), "Changed " + string(r.Printable(5)), ""}), Access: hex.EncodeToString(rc.Bitmap(core.Pick(r, fixture.DefinedBits()))), PW: fmt.Sprintf("newpw%d", uniq)}
		case 10:
			l := acc()
			if l == "" {
				continue
			}
			op = Op{Kind: "account-delete", Login: l}
		case 11:
			ip := fmt.Sprintf("10.20.%d.%d", r.Intn(256), 1+r.Intn(250))
			until := "perm"
			if r.Bool() {
				until = time.Date(2030, 1, 1+r.Intn(28), r.Intn(24), 0, 0, 0, time.UTC).Format(time.RFC3339)
			}
			op = Op{Kind: "ban", IP: ip, Until: until}
			seq.IPs = append(seq.IPs, ip)
		}
		seq.Ops = append(seq.Ops, op)
		st = apply(st, op)
	}
	return seq, init
}

// ---- child: executes the sequence against the real stores ----

type stores struct {
	board *verifshim.FlatNews
	news  *verifshim.ThreadedNewsYAML
	accts *verifshim.YAMLAccountManager
	bans  *verifshim.BanFile
}

func openStores(dir string) (*stores, error) {
	var s stores
	var err error
	if s.board, err = verifshim.NewFlatNews(filepath.Join(dir, "MessageBoard.txt")); err != nil {
		return nil, fmt.Errorf("message board: %w", err)
	}
	if s.news, err = verifshim.NewThreadedNewsYAML(filepath.Join(dir, "ThreadedNews.yaml")); err != nil {
		return nil, fmt.Errorf("threaded news: %w", err)
	}
	if s.accts, err = verifshim.NewYAMLAccountManager(filepath.Join(dir, "Users")); err != nil {
		return nil, fmt.Errorf("accounts: %w", err)
	}
	if s.bans, err = verifshim.NewBanFile(filepath.Join(dir, "Banlist.yaml")); err != nil {
		return nil, fmt.Errorf("ban list: %w", err)
	}
	return &s, nil
}

func accessOf(h string) hotline.AccessBitmap {
	var a hotline.AccessBitmap
	b, _ := hex.DecodeString(h)
	copy(a[:], b)
	return a
}

// ChildRun is the entry point of `vcheck crashchild run <dir> <seq.json>`.
func ChildRun(dir, seqFile string) int {
	b, err := os.ReadFile(seqFile)
	if err != nil {
		fmt.Println("ERR", err)
		return 3
	}
	var seq Seq
	json.Unmarshal(b, &seq)
	s, err := openStores(dir)
	if err != nil {
		fmt.Println("ERR", err)
		return 3
	}
	only := map[int]bool{}
	for _, f := range strings.Split(os.Getenv("VERIF_C20_ONLY"), ",") {
		if n, err := strconv.Atoi(f); err == nil {
			only[n] = true
		}
	}
	for i, op := range seq.Ops {
		if os.Getenv("VERIF_C20_ONLY") != "" && !only[i] {
			continue
		}
		os.Stdout.WriteString(fmt.Sprintf("BEGIN %d\n", i))
		var err error
		switch op.Kind {
		case "board-post":
			_, err = s.board.Write([]byte(op.Body))
		case "news-bundle":
			err = s.news.CreateGrouping(op.Path, op.Name, hotline.NewsBundle)
		case "news-category":
			err = s.news.CreateGrouping(op.Path, op.Name, hotline.NewsCategory)
		case "news-post":
			err = s.news.PostArticle(op.Path, op.Parent, hotline.NewsArtData{Title: op.Title, Poster: "poster", Data: op.Body})
		case "news-delete-article":
			err = s.news.DeleteArticle(op.Path, op.ID, false)
		case "news-delete-item":
			err = s.news.DeleteNewsItem(op.Path)
		case "account-create":
			err = s.accts.Create(*hotline.NewAccount(op.Login, op.Name, string(rc.Obfuscate([]byte(op.PW))), accessOf(op.Access)))
		case "account-update":
			a := s.accts.Get(op.Login)
			if a == nil {
				err = fmt.Errorf("account %q missing", op.Login)
				break
			}
			a.Name, a.Access, a.Password = op.Name, accessOf(op.Access), hotline.HashAndSalt(rc.Obfuscate([]byte(op.PW)))
			err = s.accts.Update(*a, op.NewLogin)
		case "account-delete":
			err = s.accts.Delete(op.Login)
		case "ban":
			if op.Until == "perm" {
				err = s.bans.Add(op.IP, nil)
			} else {
				t, _ := time.Parse(time.RFC3339, op.Until)
				err = s.bans.Add(op.IP, &t)
			}
		}
		if err != nil {
			os.Stdout.WriteString(fmt.Sprintf("OPERR %d %v\n", i, err))
			return 4
		}
		os.Stdout.WriteString(fmt.Sprintf("ACK %d\n", i))
	}
	return 0
}

// ChildLoad is the entry point of `vcheck crashchild load <dir> <seq.json>`: a fresh process loads the directory with
// the real constructors and prints the canonical state.
func ChildLoad(dir, seqFile string) int {
	var seq Seq
	if b, err := os.ReadFile(seqFile); err == nil {
		json.Unmarshal(b, &seq)
	}
	st := State{News: map[string]NewsNode{}, Accounts: map[string]AccountState{}, Bans: map[string]string{}}
	s, err := openStores(dir)
	if err != nil {
		st.Error = err.Error()
		b, _ := json.Marshal(st)
		fmt.Println(string(b))
		return 0
	}
	s.board.Seek(0, 0)
	bb, _ := io.ReadAll(s.board)
	st.Board = string(bb)
	var walk func(prefix []string, cats map[string]hotline.NewsCategoryListData15)
	walk = func(prefix []string, cats map[string]hotline.NewsCategoryListData15) {
		for name, c := range cats {
			p := append(append([]string{}, prefix...), name)
			nd := NewsNode{Type: int(c.Type[1])}
			if nd.Type == 3 {
				nd.Articles = map[uint32][4]string{}
				for id, a := range c.Articles {
					nd.Articles[id] = [4]string{a.Title, a.Poster, a.Data, fmt.Sprint(binary.BigEndian.Uint32(a.ParentArt[:]))}
				}
			}
			st.News[key(p)] = nd
			walk(p, c.SubCats)
		}
	}
	walk(nil, s.news.ThreadedNews.Categories)
	for _, a := range s.accts.List() {
		st.Accounts[a.Login] = AccountState{Name: a.Name, Access: hex.EncodeToString(a.Access[:]), Hash: a.Password}
		// an account must be found under the login it carries (that is how logins and edits address it)
		if g := s.accts.Get(a.Login); g == nil || g.Login != a.Login {
			st.Error = fmt.Sprintf("accounts: the account listed with login %q cannot be looked up by that login after the restart", a.Login)
		}
	}
	for _, ip := range seq.IPs {
		if b, until := s.bans.IsBanned(ip); b {
			if until == nil {
				st.Bans[ip] = "perm"
			} else {
				st.Bans[ip] = until.UTC().Format(time.RFC3339)
			}
		}
	}
	b, _ := json.Marshal(st)
	fmt.Println(string(b))
	return 0
}

// ---- parent side (inside the worker) ----

func equalState(got, want State) string {
	if got.Board != want.Board {
		return fmt.Sprintf("message board holds %d bytes %q…, expected %d bytes %q…", len(got.Board), head(got.Board), len(want.Board), head(want.Board))
	}
	gn, _ := json.Marshal(got.News)
	wn, _ := json.Marshal(want.News)
	if string(gn) != string(wn) {
		return fmt.Sprintf("threaded news differs: loaded %s, expected %s", clip(string(gn)), clip(string(wn)))
	}
	for l, w := range want.Accounts {
		g, ok := got.Accounts[l]
		if !ok {
			return fmt.Sprintf("account %q is missing (loaded logins: %v)", l, logins(got.Accounts))
		}
		if g.Name != w.Name || g.Access != w.Access {
			return fmt.Sprintf("account %q loaded as name=%q access=%s, expected name=%q access=%s", l, g.Name, g.Access, w.Name, w.Access)
		}
		if bcrypt.CompareHashAndPassword([]byte(g.Hash), rc.Obfuscate([]byte(w.PW))) != nil {
			return fmt.Sprintf("account %q: stored hash does not verify the expected password", l)
		}
	}
	for l := range got.Accounts {
		if _, ok := want.Accounts[l]; !ok {
			return fmt.Sprintf("unexpected account %q loaded (expected logins: %v)", l, logins(want.Accounts))
		}
	}
	gb, _ := json.Marshal(got.Bans)
	wb, _ := json.Marshal(want.Bans)
	if string(gb) != string(wb) {
		return fmt.Sprintf("ban list differs: loaded %s, expected %s", gb, wb)
	}
	return ""
}

func logins(m map[string]AccountState) []string {
	var l []string
	for k := range m {
		l = append(l, k)
	}
	sort.Strings(l)
	return l
}

func head(s string) string {
	if len(s) > 40 {
		return s[:40]
	}
	return s
}

func clip(s string) string {
	if len(s) > 500 {
		return s[:500] + "…"
	}
	return s
}

const traceSet = "openat,write,close,rename,renameat,renameat2,unlink,unlinkat,ftruncate,fsync,fdatasync,link,linkat,mkdir,mkdirat"

var callRe = regexp.MustCompile(`^([a-z0-9_]+)\(`)

func copyDir(src, dst string) error {
	return filepath.Walk(src, func(p string, info os.FileInfo, err error) error {
		if err != nil {
			return err
		}
		rel, _ := filepath.Rel(src, p)
		t := filepath.Join(dst, rel)
		if info.IsDir() {
			return os.MkdirAll(t, 0755)
		}
		b, err := os.ReadFile(p)
		if err != nil {
			return err
		}
		return os.WriteFile(t, b, 0644)
	})
}

func makeBase(dir string, init State) error {
	os.MkdirAll(filepath.Join(dir, "Users"), 0755)
	for l, a := range init.Accounts {
		acc, _ := hex.DecodeString(a.Access)
		if err := os.WriteFile(filepath.Join(dir, "Users", l+".yaml"), []byte(fixture.AccountYAML(fixture.Account{Login: l, Name: a.Name, Password: a.PW, Access: acc})), 0644); err != nil {
			return err
		}
	}
	os.WriteFile(filepath.Join(dir, "MessageBoard.txt"), []byte(init.Board), 0644)
	os.WriteFile(filepath.Join(dir, "ThreadedNews.yaml"), []byte("Categories:\n  cat:\n    Type: [0, 3]\n    Name: cat\n    Articles: {}\n    SubCats: {}\n"), 0644)
	return nil
}

func self() string {
	p, err := os.Executable()
	if err != nil {
		return filepath.Join(core.VerifDir, "bin", "vcheck")
	}
	return p
}

// runChild executes the sequence under strace, optionally with a kill injected; returns stdout and the trace lines.
func runChild(dir, seqFile, logFile string, inject string) (string, []string, error) {
	args := []string{"-o", logFile, "-e", "trace=" + traceSet}
	if inject != "" {
		args = append(args, "-e", "inject="+inject)
	}
	args = append(args, self(), "crashchild", "run", dir, seqFile)
	cmd := exec.Command("strace", args...)
	cmd.Env = append(os.Environ(), "GOMAXPROCS=2", "GODEBUG=asyncpreemptoff=1")
	out, err := cmd.Output()
	var lines []string
	if f, e := os.Open(logFile); e == nil {
		sc := bufio.NewScanner(f)
		sc.Buffer(make([]byte, 1<<20), 1<<26)
		for sc.Scan() {
			if callRe.MatchString(sc.Text()) {
				lines = append(lines, sc.Text())
			}
		}
		f.Close()
	}
	return string(out), lines, err
}

func loadState(dir, seqFile string) (State, error) {
	out, err := exec.Command(self(), "crashchild", "load", dir, seqFile).Output()
	var st State
	if err != nil {
		return st, fmt.Errorf("loader process failed: %v (%s)", err, out)
	}
	if e := json.Unmarshal([]byte(strings.TrimSpace(string(out))), &st); e != nil {
		return st, fmt.Errorf("loader output: %v: %s", e, out)
	}
	return st, nil
}

func lastLines(s string) string {
	ls := strings.Split(strings.TrimSpace(s), "\n")
	if len(ls) > 2 {
		ls = ls[len(ls)-2:]
	}
	return strings.Join(ls, " / ")
}

func callName(line string) string {
	m := callRe.FindStringSubmatch(line)
	if m == nil {
		return ""
	}
	return m[1]
}

func (prop) Run(b core.Batch, em *core.Emitter) {
	var a seqArgs
	json.Unmarshal(b.Args, &a)
	r := core.NewRand(b.Seed, uint64(a.Seq), 0x20)
	seq, init := genSeq(r)
	states := []State{init}
	for _, op := range seq.Ops {
		states = append(states, apply(states[len(states)-1], op))
	}
	scratch := core.ScratchDir()
	seqFile := filepath.Join(scratch, "seq.json")
	sb, _ := json.Marshal(seq)
	os.WriteFile(seqFile, sb, 0644)
	base := filepath.Join(scratch, "base")
	if err := makeBase(base, init); err != nil {
		em.Emit(core.Result{Case: b.Name, Verdict: core.Inconclusive, Msg: "base: " + err.Error()})
		return
	}
	// the legacy->named migration must not happen during the runs: load once so that the base is in its final form
	if st, err := loadState(base, seqFile); err != nil || st.Error != "" {
		em.Emit(core.Result{Case: b.Name, Verdict: core.Inconclusive, Msg: fmt.Sprintf("base does not load: %v %s", err, st.Error)})
		return
	}
	// reference run
	refDir := filepath.Join(scratch, "ref")
	copyDir(base, refDir)
	out, refTrace, err := runChild(refDir, seqFile, filepath.Join(scratch, "ref.trace"), "")
	if err != nil || !strings.Contains(out, fmt.Sprintf("ACK %d", len(seq.Ops)-1)) {
		em.Emit(core.Result{Case: b.Name, Verdict: core.Inconclusive, Msg: fmt.Sprintf("reference run failed: %v; output %q", err, out)})
		return
	}
	if st, err := loadState(refDir, seqFile); err != nil || st.Error != "" || equalState(st, states[len(states)-1]) != "" {
		msg := ""
		if err == nil {
			msg = st.Error + " " + equalState(st, states[len(states)-1])
		}
		em.Emit(core.Result{Case: b.Name + "/no-crash", Class: "no-crash", Verdict: core.Violated, Key: "C20/no-crash/state-differs",
			Msg: fmt.Sprintf("even without a crash the reloaded state differs from the model after the whole sequence: %v %s", err, msg)})
		return
	}
	first := -1
	for i, ln := range refTrace {
		if strings.Contains(ln, `"BEGIN 0`) {
			first = i
			break
		}
	}
	if first < 0 {
		em.Emit(core.Result{Case: b.Name, Verdict: core.Inconclusive, Msg: "BEGIN 0 not found in the reference trace"})
		return
	}
	type point struct {
		j    int
		name string
		ord  int
	}
	var points []point
	counts := map[string]int{}
	for j, ln := range refTrace {
		n := callName(ln)
		counts[n]++
		if j >= first {
			points = append(points, point{j, n, counts[n]})
		}
	}
	core.Parallel(len(points), 16, func(pi int) {
		pt := points[pi]
		id := fmt.Sprintf("C20/seq%d/call%d", a.Seq, pt.j)
		core.SafeCase(em, id, func() {
			replay := map[string]any{"sequence": a.Seq, "call_index": pt.j, "syscall": pt.name, "ordinal": pt.ord, "trace_line": clip(refTrace[pt.j])}
			em.Begin(id, replay)
			var res core.Result
			for attempt := 0; attempt < 3; attempt++ {
				res = crashPoint(scratch, base, seqFile, seq, states, refTrace, pt.j, pt.name, pt.ord, id, pi, attempt)
				if res.Verdict != core.Inconclusive {
					break
				}
			}
			res.Replay = replay
			em.Emit(res)
		})
	})
}

func crashPoint(scratch, base, seqFile string, seq Seq, states []State, refTrace []string, j int, name string, ord int, id string, pi, attempt int) core.Result {
	dir := filepath.Join(scratch, fmt.Sprintf("p%d-%d", pi, attempt))
	defer os.RemoveAll(dir)
	if err := copyDir(base, dir); err != nil {
		return core.Result{Case: id, Verdict: core.Inconclusive, Msg: err.Error()}
	}
	logf := dir + ".trace"
	defer os.Remove(logf)
	out, trace, _ := runChild(dir, seqFile, logf, fmt.Sprintf("%s:signal=SIGKILL:when=%d", name, ord))
	// the run's own trace must be the reference trace up to and including call j (same call names)
	if len(trace) != j+1 {
		return core.Result{Case: id, Verdict: core.Inconclusive, Msg: fmt.Sprintf("crash run traced %d calls, expected to die on entry to call %d (%s #%d)", len(trace), j, name, ord)}
	}
	for k := range trace {
		if callName(trace[k]) != callName(refTrace[k]) {
			return core.Result{Case: id, Verdict: core.Inconclusive, Msg: fmt.Sprintf("crash run diverged from the reference trace at call %d", k)}
		}
	}
	acks, begins := 0, 0
	for _, ln := range strings.Split(out, "\n") {
		if strings.HasPrefix(ln, "ACK ") {
			acks++
		}
		if strings.HasPrefix(ln, "BEGIN ") {
			begins++
		}
	}
	inflight := "none"
	if begins > acks {
		inflight = seq.Ops[acks].Kind
	}
	st, err := loadState(dir, seqFile)
	class := fmt.Sprintf("%s/%s", inflight, name)
	if inflight == "none" {
		class = ""
	}
	obs := map[string]int{"crash_points": 1, "crash_in_" + inflight: 1, "killed_at_" + name: 1}
	sample := map[string]any{"killed_on_entry_to": clip(refTrace[j]), "acknowledged_updates": acks, "update_in_flight": inflight}
	if err != nil {
		return core.Result{Case: id, Verdict: core.Inconclusive, Msg: err.Error()}
	}
	if st.Error != "" {
		return core.Result{Case: id, Class: class, Verdict: core.Violated, Key: "C20/" + inflight + "/store-does-not-load", Obs: obs, Sample: sample,
			Msg: fmt.Sprintf("killed on entry to call %d (%s) with %d updates acknowledged and %q in flight: after restart a store does not load: %s", j, clip(refTrace[j]), acks, inflight, st.Error)}
	}
	d1 := equalState(st, states[acks])
	applied := -1
	if d1 == "" {
		applied = acks
	} else if begins > acks {
		if d2 := equalState(st, states[acks+1]); d2 == "" {
			applied = acks + 1
		}
	}
	if applied >= 0 {
		// the restarted server carries on: the remaining updates are applied to the directory the crash left behind
		// (stale temporary files and all) by a fresh process, and after one more restart the stores must hold exactly
		// the final state - an acknowledged update must not be lost or mangled by the leftovers of the crash.
		// Two continuations: the client repeats the update that was in flight ("retry"), or gives up on it and the
		// remaining updates that still make sense are applied ("abandon").
		type cont struct {
			name string
			idx  []int
			want State
		}
		var conts []cont
		retry := cont{name: "retry", want: states[len(states)-1]}
		for i := applied; i < len(seq.Ops); i++ {
			retry.idx = append(retry.idx, i)
		}
		conts = append(conts, retry)
		if applied == acks && begins > acks {
			ab := cont{name: "abandon", want: states[acks]}
			for i := acks + 1; i < len(seq.Ops); i++ {
				if valid(ab.want, seq.Ops[i]) {
					ab.idx = append(ab.idx, i)
					ab.want = apply(ab.want, seq.Ops[i])
				}
			}
			conts = append(conts, ab)
		}
		for ci, ct := range conts {
			if len(ct.idx) == 0 {
				continue
			}
			cdir := dir
			if ci+1 < len(conts) {
				cdir = dir + "-c"
				if err := copyDir(dir, cdir); err != nil {
					return core.Result{Case: id, Verdict: core.Inconclusive, Msg: err.Error()}
				}
				defer os.RemoveAll(cdir)
			}
			var ids []string
			for _, i := range ct.idx {
				ids = append(ids, strconv.Itoa(i))
			}
			cmd := exec.Command(self(), "crashchild", "run", cdir, seqFile)
			cmd.Env = append(os.Environ(), "VERIF_C20_ONLY="+strings.Join(ids, ","))
			out2, _ := cmd.Output()
			obs["continued_after_restart_"+ct.name] = 1
			what := fmt.Sprintf("killed on entry to call %d (%s) with %q in flight; the stores reloaded with %d updates in effect; continuation %q (updates %s)", j, clip(refTrace[j]), inflight, applied, ct.name, strings.Join(ids, ","))
			if !strings.Contains(string(out2), fmt.Sprintf("ACK %d\n", ct.idx[len(ct.idx)-1])) {
				return core.Result{Case: id, Class: class, Verdict: core.Violated, Key: "C20/" + inflight + "/update-fails-after-restart", Obs: obs, Sample: sample,
					Msg: what + " failed on that directory: " + clip(lastLines(string(out2)))}
			}
			st2, err := loadState(cdir, seqFile)
			if err != nil {
				return core.Result{Case: id, Verdict: core.Inconclusive, Msg: err.Error()}
			}
			if st2.Error != "" {
				return core.Result{Case: id, Class: class, Verdict: core.Violated, Key: "C20/" + inflight + "/store-does-not-load-after-continuing", Obs: obs, Sample: sample,
					Msg: what + " was acknowledged, but after the next restart a store does not load: " + st2.Error}
			}
			if d := equalState(st2, ct.want); d != "" {
				return core.Result{Case: id, Class: class, Verdict: core.Violated, Key: "C20/" + inflight + "/lost-after-continuing", Obs: obs, Sample: sample,
					Msg: what + " was acknowledged, but after the next restart the stores do not hold the expected state: " + d}
			}
		}
		return core.Result{Case: id, Class: class, Verdict: core.Held, Obs: obs, Sample: sample}
	}
	return core.Result{Case: id, Class: class, Verdict: core.Violated, Key: "C20/" + inflight + "/torn-or-lost", Obs: obs, Sample: sample,
		Msg: fmt.Sprintf("killed on entry to call %d (%s) with %d updates acknowledged and %q in flight: the reloaded state is neither the state after %d updates nor (if begun) after %d: %s", j, clip(refTrace[j]), acks, inflight, acks, acks+1, d1)}
}

func (prop) Replay(payload json.RawMessage, em *core.Emitter) {
	var p struct {
		Sequence int `json:"sequence"`
		Call     int `json:"call_index"`
	}
	json.Unmarshal(payload, &p)
	// re-run the whole sequence's enumeration is cheap enough; report only the requested call
	inner, _ := core.NewEmitter("")
	a, _ := json.Marshal(seqArgs{p.Sequence})
	prop{}.Run(core.Batch{Prop: "C20", Name: "replay", Seed: core.Seed(), Args: a}, inner)
	want := fmt.Sprintf("C20/seq%d/call%d", p.Sequence, p.Call)
	for _, r := range inner.Mem {
		if r.Case == want && !r.Begin {
			em.Emit(r)
		}
	}
}
