// Package refclient is a reference Hotline client written from the protocol document. It talks to
// the real server code through transport.Conn and the export shim.
package refclient

import (
	"context"
	"fmt"
	"sync"
	"time"

	"verifharness/internal/fixture"
	"verifharness/internal/refcodec"
	"verifharness/internal/transport"
)

const Watchdog = 30 * time.Second

type Client struct {
	Srv    *fixture.Server
	Conn   *transport.Conn
	Addr   string
	nextID uint32
	Err    error // handler return value (valid once Conn.Done is closed)

	mu       sync.Mutex
	parsed   int // bytes of Conn output already re-framed
	inbox    []refcodec.Tran
	drained  int
	FrameErr error // first re-framing error of this client's stream
	// LastWhy says why the last Call returned ok=false ("" after a successful call); a reason starting with "watchdog"
	// is a wall-clock limit of the harness, not an observation about the server.
	LastWhy string
	// IconShape varies how Agreed carries the icon: "" (2 or 4 bytes), "absent", "empty", "one-byte".
	IconShape string
	// WideInts makes Agreed send its integer fields (icon and options) in the 4-byte encoding, which the protocol allows
	// as well as the 2-byte one.
	WideInts bool
	HsReply  []byte
}

// Connect starts the real handleNewConnection on a fresh in-memory connection.
func Connect(srv *fixture.Server, addr string) *Client {
	c := &Client{Srv: srv, Conn: transport.NewConn(), Addr: addr, nextID: 1}
	c.Conn.Done = make(chan struct{})
	srv.Track(c.Conn)
	go func() {
		defer close(c.Conn.Done)
		c.Err = srv.S.VerifHandleNewConnection(context.Background(), c.Conn, addr)
	}()
	return c
}

// Handshake sends the 12-byte handshake and consumes the 8-byte reply.
func (c *Client) Handshake() error {
	c.Conn.Send(refcodec.Handshake())
	buf := make([]byte, 8)
	if _, err := c.Conn.ClientReadFull(buf, Watchdog, c.Conn.HandlerDone); err != nil {
		return fmt.Errorf("handshake reply: %w", err)
	}
	c.HsReply = buf
	c.mu.Lock()
	c.parsed = 8
	c.mu.Unlock()
	if string(buf) != string(refcodec.HandshakeReply) {
		return fmt.Errorf("handshake reply %x", buf)
	}
	return nil
}

// SkipHandshakeReply tells the re-framer that the first 8 bytes of the stream are the handshake
// reply (used when the handshake was sent as raw bytes).
func (c *Client) SkipHandshakeReply() {
	c.mu.Lock()
	if c.parsed < 8 {
		c.parsed = 8
	}
	c.mu.Unlock()
}

func (c *Client) NewID() uint32 {
	c.mu.Lock()
	defer c.mu.Unlock()
	id := c.nextID
	c.nextID++
	return id
}

// Send transmits a request and returns its transaction id.
func (c *Client) Send(typ int, fields ...refcodec.Field) uint32 {
	id := c.NewID()
	t := refcodec.Tran{Type: uint16(typ), ID: id, Fields: fields}
	c.Conn.Send(t.Encode())
	return id
}

// SendRaw transmits bytes as one segment.
func (c *Client) SendRaw(b []byte) { c.Conn.Send(b) }

// pump re-frames newly arrived bytes into the inbox.
func (c *Client) pump() {
	out := c.Conn.Out()
	c.mu.Lock()
	defer c.mu.Unlock()
	if c.FrameErr != nil || c.parsed > len(out) {
		return
	}
	ts, rest, err := refcodec.SplitFrames(out[c.parsed:])
	for _, t := range ts {
		if t.Type == fixture.MarkerType {
			continue
		}
		c.inbox = append(c.inbox, t)
	}
	c.parsed = len(out) - len(rest)
	if err != nil {
		c.FrameErr = fmt.Errorf("stream offset %d: %w", c.parsed, err)
	}
}

// Unframed returns the number of received bytes that do not (yet) form a complete transaction.
func (c *Client) Unframed() int {
	c.pump()
	c.mu.Lock()
	defer c.mu.Unlock()
	return c.Conn.OutLen() - c.parsed
}

// Inbox returns every transaction received so far.
func (c *Client) Inbox() []refcodec.Tran {
	c.pump()
	c.mu.Lock()
	defer c.mu.Unlock()
	return append([]refcodec.Tran(nil), c.inbox...)
}

// Drain returns the transactions received since the previous Drain.
func (c *Client) Drain() []refcodec.Tran {
	c.pump()
	c.mu.Lock()
	defer c.mu.Unlock()
	d := append([]refcodec.Tran(nil), c.inbox[c.drained:]...)
	c.drained = len(c.inbox)
	return d
}

// WaitReply waits for the reply to id. ok=false: the server is quiescent (or the watchdog fired) and
// no reply arrived.
func (c *Client) WaitReply(id uint32) (refcodec.Tran, bool) {
	deadline := time.Now().Add(Watchdog)
	scanned := 0
	for {
		in := c.Inbox()
		for ; scanned < len(in); scanned++ {
			if in[scanned].IsReply == 1 && in[scanned].ID == id {
				return in[scanned], true
			}
		}
		if c.Conn.HandlerDone() {
			c.Srv.Quiesce(Watchdog)
			in = c.Inbox()
			for ; scanned < len(in); scanned++ {
				if in[scanned].IsReply == 1 && in[scanned].ID == id {
					return in[scanned], true
				}
			}
			return refcodec.Tran{}, false
		}
		if time.Now().After(deadline) {
			return refcodec.Tran{}, false
		}
		time.Sleep(50 * time.Microsecond)
	}
}

// Call sends a request and waits for its reply; if the server becomes quiescent without replying
// ok is false.
func (c *Client) Call(typ int, fields ...refcodec.Field) (refcodec.Tran, bool) {
	id := c.Send(typ, fields...)
	return c.await(id)
}

func (c *Client) await(id uint32) (refcodec.Tran, bool) {
	deadline := time.Now().Add(Watchdog)
	hardCap := time.Now().Add(20 * Watchdog)
	scanned := 0
	c.LastWhy = ""
	check := func() (refcodec.Tran, bool) {
		in := c.Inbox()
		for ; scanned < len(in); scanned++ {
			if in[scanned].IsReply == 1 && in[scanned].ID == id {
				return in[scanned], true
			}
		}
		return refcodec.Tran{}, false
	}
	for {
		if t, ok := check(); ok {
			return t, true
		}
		if c.Conn.Idle() {
			// request consumed and handled; outputs may still be in flight
			for !c.Srv.Quiesce(Watchdog) {
				// slow (loaded machine) or stuck? As long as the server raises hook events it is slow: keep waiting
				if time.Now().After(hardCap) || c.Srv.NoProgressFor(20*time.Second) {
					c.LastWhy = "watchdog: the server did not become quiescent"
					return refcodec.Tran{}, false
				}
				if t, ok := check(); ok {
					return t, true
				}
			}
			t, ok := check()
			if !ok {
				c.LastWhy = "the request was consumed and the server is quiescent, but no reply was written"
			}
			return t, ok
		}
		if time.Now().After(deadline) {
			// the wall-clock limit is no verdict by itself: a server that still raises hook events is slow, not stuck
			if time.Now().Before(hardCap) && !c.Srv.NoProgressFor(20*time.Second) {
				deadline = time.Now().Add(Watchdog)
				continue
			}
			c.LastWhy = "watchdog: the request was not consumed in time"
			return refcodec.Tran{}, false
		}
		time.Sleep(30 * time.Microsecond)
	}
}

type LoginOpts struct {
	Login    string
	Password string
	Name     *string // nil: 1.5+ flow (name sent with Agreed)
	Icon     int
	Version  int // 0: omit field 160
	RawLogin []byte
	RawPass  []byte
}

// Login sends the login transaction and waits for its reply.
func (c *Client) Login(o LoginOpts) (refcodec.Tran, bool) {
	login := []byte(o.Login)
	if o.RawLogin != nil {
		login = o.RawLogin
	}
	pass := []byte(o.Password)
	if o.RawPass != nil {
		pass = o.RawPass
	}
	fs := []refcodec.Field{
		refcodec.F(105, refcodec.Obfuscate(login)),
		refcodec.F(106, refcodec.Obfuscate(pass)),
	}
	if o.Version != 0 {
		fs = append(fs, refcodec.F(160, refcodec.U16(o.Version)))
	}
	if o.Name != nil {
		fs = append(fs, refcodec.FS(102, *o.Name), refcodec.F(104, refcodec.U16(o.Icon)))
	}
	return c.Call(107, fs...)
}

// Agreed completes the 1.5+ login flow.
func (c *Client) Agreed(name string, icon int, options int, autoReply string) (refcodec.Tran, bool) {
	fs := []refcodec.Field{
		refcodec.FS(102, name), refcodec.F(104, refcodec.U16(icon)), refcodec.F(113, refcodec.U16(options)),
	}
	if c.WideInts {
		fs[1] = refcodec.F(104, refcodec.U32(icon))
		fs[2] = refcodec.F(113, refcodec.U32(options))
	}
	switch c.IconShape {
	case "absent":
		fs = append(fs[:1], fs[2:]...)
	case "empty":
		fs[1] = refcodec.F(104, nil)
	case "one-byte":
		fs[1] = refcodec.F(104, []byte{byte(icon)})
	}
	if autoReply != "" {
		fs = append(fs, refcodec.FS(215, autoReply))
	}
	return c.Call(121, fs...)
}

// LoginAs performs handshake + login (old flow when name != "", with the name in the login).
func LoginAs(srv *fixture.Server, addr, login, password, name string) (*Client, error) {
	c := Connect(srv, addr)
	if err := c.Handshake(); err != nil {
		return c, err
	}
	o := LoginOpts{Login: login, Password: password, Version: 190}
	if name != "" {
		o.Name = &name
	}
	r, ok := c.Login(o)
	if !ok {
		return c, fmt.Errorf("no login reply")
	}
	if r.Err != 0 {
		return c, fmt.Errorf("login refused: %s", r)
	}
	return c, nil
}

// Hangup closes the client's sending side (server sees EOF) and waits for the handler to return.
func (c *Client) Hangup() bool {
	c.Conn.CloseWrite()
	select {
	case <-c.Conn.Done:
		return true
	case <-time.After(Watchdog):
		return false
	}
}

// UserID extracts this client's own id from the user-access transaction target (not on the wire);
// instead the harness learns ids from the user list: see FindSelf.
func UserList(t refcodec.Tran) ([]refcodec.User, error) {
	var us []refcodec.User
	for _, d := range t.GetAll(300) {
		u, err := refcodec.DecodeUser(d)
		if err != nil {
			return nil, err
		}
		us = append(us, u)
	}
	return us, nil
}

// ---- transfer connections ----

type Transfer struct {
	Conn *transport.Conn
	Err  error
}

// OpenTransfer starts the real handleFileTransfer on a fresh in-memory connection.
func OpenTransfer(srv *fixture.Server, addr string) *Transfer {
	t := &Transfer{Conn: transport.NewConn()}
	t.Conn.Done = make(chan struct{})
	go func() {
		defer close(t.Conn.Done)
		t.Err = srv.S.VerifHandleFileTransfer(context.Background(), t.Conn, addr)
	}()
	return t
}

// WaitDone waits for the transfer handler to return (it sleeps 3 s before returning).
func (t *Transfer) WaitDone(d time.Duration) bool {
	select {
	case <-t.Conn.Done:
		return true
	case <-time.After(d):
		return false
	}
}

// ReadAllUntilDone collects everything the server writes until the handler returns.
func (t *Transfer) ReadAllUntilDone(d time.Duration) ([]byte, bool) {
	ok := t.WaitDone(d)
	return t.Conn.Out(), ok
}

// CallDirect sends a request and waits for its reply on this connection only, without waiting for the rest of the
// server to become quiescent (used where the next request must follow the reply immediately).
func (c *Client) CallDirect(typ int, fields ...refcodec.Field) (refcodec.Tran, bool) {
	id := c.Send(typ, fields...)
	deadline := time.Now().Add(Watchdog)
	hardCap := time.Now().Add(20 * Watchdog)
	scanned := 0
	for {
		for time.Now().Before(deadline) {
			in := c.Inbox()
			for ; scanned < len(in); scanned++ {
				if in[scanned].IsReply == 1 && in[scanned].ID == id {
					return in[scanned], true
				}
			}
			if c.Conn.HandlerDone() {
				return refcodec.Tran{}, false
			}
			time.Sleep(20 * time.Microsecond)
		}
		// slow or stuck? a server that still raises hook events is slow: keep waiting (see await)
		if time.Now().After(hardCap) || c.Srv.NoProgressFor(20*time.Second) {
			c.LastWhy = "watchdog: no reply"
			return refcodec.Tran{}, false
		}
		deadline = time.Now().Add(Watchdog)
	}
}
