// Package refcodec is an independent encoder/decoder for the Hotline wire objects, written from
// docs/HLProtocol.pages.pdf (see DESIGN.md Appendix A). It shares no code with jhalter/mobius.
package refcodec

import (
	"encoding/binary"
	"errors"
	"fmt"
)

var be = binary.BigEndian

func U16(v int) []byte { b := make([]byte, 2); be.PutUint16(b, uint16(v)); return b }
func U32(v int) []byte { b := make([]byte, 4); be.PutUint32(b, uint32(v)); return b }

func cat(parts ...[]byte) []byte {
	n := 0
	for _, p := range parts {
		n += len(p)
	}
	out := make([]byte, 0, n)
	for _, p := range parts {
		out = append(out, p...)
	}
	return out
}

// ---- transactions and fields ----

type Field struct {
	ID   uint16
	Data []byte
}

func F(id int, data []byte) Field { return Field{ID: uint16(id), Data: data} }
func FS(id int, s string) Field   { return Field{ID: uint16(id), Data: []byte(s)} }

func (f Field) Encode() []byte { return cat(U16(int(f.ID)), U16(len(f.Data)), f.Data) }

type Tran struct {
	Flags   byte
	IsReply byte
	Type    uint16
	ID      uint32
	Err     uint32
	Fields  []Field
}

func (t Tran) Encode() []byte {
	payload := U16(len(t.Fields))
	for _, f := range t.Fields {
		payload = append(payload, f.Encode()...)
	}
	return cat([]byte{t.Flags, t.IsReply}, U16(int(t.Type)), U32(int(t.ID)), U32(int(t.Err)),
		U32(len(payload)), U32(len(payload)), payload)
}

func (t Tran) Get(id int) ([]byte, bool) {
	for _, f := range t.Fields {
		if int(f.ID) == id {
			return f.Data, true
		}
	}
	return nil, false
}

func (t Tran) GetAll(id int) [][]byte {
	var out [][]byte
	for _, f := range t.Fields {
		if int(f.ID) == id {
			out = append(out, f.Data)
		}
	}
	return out
}

func (t Tran) String() string {
	s := fmt.Sprintf("{type=%d reply=%d id=%08x err=%d", t.Type, t.IsReply, t.ID, t.Err)
	for _, f := range t.Fields {
		d := f.Data
		if len(d) > 24 {
			s += fmt.Sprintf(" %d:[%d bytes %x…]", f.ID, len(d), d[:24])
		} else {
			s += fmt.Sprintf(" %d:%x", f.ID, d)
		}
	}
	return s + "}"
}

var ErrShort = errors.New("incomplete transaction")

// DecodeTran strictly decodes one transaction from the front of b. It returns ErrShort when b holds
// only a prefix of a frame, and another error when the bytes cannot be a well-formed transaction.
func DecodeTran(b []byte) (Tran, int, error) {
	var t Tran
	if len(b) < 20 {
		return t, 0, ErrShort
	}
	t.Flags, t.IsReply = b[0], b[1]
	t.Type = be.Uint16(b[2:4])
	t.ID = be.Uint32(b[4:8])
	t.Err = be.Uint32(b[8:12])
	total := int(be.Uint32(b[12:16]))
	data := int(be.Uint32(b[16:20]))
	if total != data {
		return t, 0, fmt.Errorf("totalSize %d != dataSize %d", total, data)
	}
	if total < 2 {
		return t, 0, fmt.Errorf("totalSize %d < 2", total)
	}
	if total > 1<<24 {
		return t, 0, fmt.Errorf("implausible totalSize %d", total)
	}
	if len(b) < 20+total {
		return t, 0, ErrShort
	}
	p := b[20 : 20+total]
	n := int(be.Uint16(p[0:2]))
	off := 2
	for i := 0; i < n; i++ {
		if off+4 > len(p) {
			return t, 0, fmt.Errorf("field %d/%d header overruns payload (off %d of %d)", i, n, off, len(p))
		}
		id := be.Uint16(p[off : off+2])
		sz := int(be.Uint16(p[off+2 : off+4]))
		if off+4+sz > len(p) {
			return t, 0, fmt.Errorf("field %d (id %d) size %d overruns payload (off %d of %d)", i, id, sz, off, len(p))
		}
		d := make([]byte, sz)
		copy(d, p[off+4:off+4+sz])
		t.Fields = append(t.Fields, Field{ID: id, Data: d})
		off += 4 + sz
	}
	if off != len(p) {
		return t, 0, fmt.Errorf("fields consume %d of %d payload bytes", off, len(p))
	}
	return t, 20 + total, nil
}

// SplitFrames decodes as many complete transactions as stream holds; rest is the undecoded tail.
func SplitFrames(stream []byte) (ts []Tran, rest []byte, err error) {
	for len(stream) > 0 {
		t, n, e := DecodeTran(stream)
		if e == ErrShort {
			return ts, stream, nil
		}
		if e != nil {
			return ts, stream, e
		}
		ts = append(ts, t)
		stream = stream[n:]
	}
	return ts, nil, nil
}

// ---- scalar helpers ----

func Obfuscate(b []byte) []byte {
	o := make([]byte, len(b))
	for i, c := range b {
		o[i] = 255 - c
	}
	return o
}

func DecodeIntField(d []byte) (int, bool) {
	switch len(d) {
	case 2:
		return int(be.Uint16(d)), true
	case 4:
		return int(be.Uint32(d)), true
	}
	return 0, false
}

// ---- handshake / transfer preamble ----

func Handshake() []byte { return []byte("TRTPHOTL\x00\x01\x00\x02") }

var HandshakeReply = []byte{'T', 'R', 'T', 'P', 0, 0, 0, 0}

func Preamble(ref []byte, size int) []byte {
	return cat([]byte("HTXF"), ref, U32(size), []byte{0, 0, 0, 0})
}

// ---- user name with info (300) ----

type User struct {
	ID    uint16
	Icon  uint16
	Flags uint16
	Name  []byte
}

func (u User) Encode() []byte {
	return cat(U16(int(u.ID)), U16(int(u.Icon)), U16(int(u.Flags)), U16(len(u.Name)), u.Name)
}

func DecodeUser(b []byte) (User, error) {
	if len(b) < 8 {
		return User{}, fmt.Errorf("user record %d bytes < 8", len(b))
	}
	n := int(be.Uint16(b[6:8]))
	if 8+n != len(b) {
		return User{}, fmt.Errorf("user record: name length %d but %d bytes follow", n, len(b)-8)
	}
	return User{ID: be.Uint16(b[0:2]), Icon: be.Uint16(b[2:4]), Flags: be.Uint16(b[4:6]), Name: append([]byte{}, b[8:]...)}, nil
}

// ---- file name with info (200) ----

type FileEntry struct {
	Type    [4]byte
	Creator [4]byte
	Size    uint32
	Script  uint16
	Name    []byte
}

func (f FileEntry) Encode() []byte {
	return cat(f.Type[:], f.Creator[:], U32(int(f.Size)), []byte{0, 0, 0, 0}, U16(int(f.Script)), U16(len(f.Name)), f.Name)
}

func DecodeFileEntry(b []byte) (FileEntry, error) {
	var f FileEntry
	if len(b) < 20 {
		return f, fmt.Errorf("file entry %d bytes < 20", len(b))
	}
	copy(f.Type[:], b[0:4])
	copy(f.Creator[:], b[4:8])
	f.Size = be.Uint32(b[8:12])
	f.Script = be.Uint16(b[16:18])
	n := int(be.Uint16(b[18:20]))
	if 20+n != len(b) {
		return f, fmt.Errorf("file entry: name length %d but %d bytes follow", n, len(b)-20)
	}
	f.Name = append([]byte{}, b[20:]...)
	return f, nil
}

// ---- paths (202/212/325) ----

func Path(items ...[]byte) []byte {
	out := U16(len(items))
	for _, it := range items {
		out = append(out, 0, 0, byte(len(it)))
		out = append(out, it...)
	}
	return out
}

func PathS(items ...string) []byte {
	bs := make([][]byte, len(items))
	for i, s := range items {
		bs[i] = []byte(s)
	}
	return Path(bs...)
}

func DecodePath(b []byte) ([][]byte, error) {
	if len(b) < 2 {
		return nil, fmt.Errorf("path %d bytes < 2", len(b))
	}
	n := int(be.Uint16(b[0:2]))
	off := 2
	var items [][]byte
	for i := 0; i < n; i++ {
		if off+3 > len(b) {
			return nil, fmt.Errorf("path item %d header overruns", i)
		}
		l := int(b[off+2])
		if off+3+l > len(b) {
			return nil, fmt.Errorf("path item %d length %d overruns", i, l)
		}
		items = append(items, append([]byte{}, b[off+3:off+3+l]...))
		off += 3 + l
	}
	if off != len(b) {
		return nil, fmt.Errorf("path: %d trailing bytes", len(b)-off)
	}
	return items, nil
}

// ---- resume data (203) ----

type Fork struct {
	Type [4]byte
	Size uint32
}

func ResumeData(forks ...Fork) []byte {
	out := cat([]byte("RFLT"), U16(1), make([]byte, 34), U16(len(forks)))
	for _, f := range forks {
		out = append(out, f.Type[:]...)
		out = append(out, U32(int(f.Size))...)
		out = append(out, make([]byte, 8)...)
	}
	return out
}

func DataFork(size int) Fork { return Fork{Type: [4]byte{'D', 'A', 'T', 'A'}, Size: uint32(size)} }
func RsrcFork(size int) Fork { return Fork{Type: [4]byte{'M', 'A', 'C', 'R'}, Size: uint32(size)} }

func DecodeResumeData(b []byte) ([]Fork, error) {
	if len(b) < 42 {
		return nil, fmt.Errorf("resume data %d bytes < 42", len(b))
	}
	if string(b[0:4]) != "RFLT" {
		return nil, fmt.Errorf("resume data magic %q", b[0:4])
	}
	if be.Uint16(b[4:6]) != 1 {
		return nil, fmt.Errorf("resume data version %d", be.Uint16(b[4:6]))
	}
	n := int(be.Uint16(b[40:42]))
	if len(b) != 42+16*n {
		return nil, fmt.Errorf("resume data: fork count %d but %d bytes follow", n, len(b)-42)
	}
	var fs []Fork
	for i := 0; i < n; i++ {
		o := 42 + 16*i
		var f Fork
		copy(f.Type[:], b[o:o+4])
		f.Size = be.Uint32(b[o+4 : o+8])
		fs = append(fs, f)
	}
	return fs, nil
}

// ---- flattened file object ----

type InfoFork struct {
	Platform   [4]byte
	Type       [4]byte
	Creator    [4]byte
	Flags      [4]byte
	PlatFlags  [4]byte
	Create     [8]byte
	Modify     [8]byte
	NameScript uint16
	Name       []byte
	Comment    []byte
	NoComment  bool // omit the comment length entirely (Nostalgia client)
}

func (i InfoFork) Encode() []byte {
	out := cat(i.Platform[:], i.Type[:], i.Creator[:], i.Flags[:], i.PlatFlags[:], make([]byte, 32),
		i.Create[:], i.Modify[:], U16(int(i.NameScript)), U16(len(i.Name)), i.Name)
	if !i.NoComment {
		out = cat(out, U16(len(i.Comment)), i.Comment)
	}
	return out
}

func DecodeInfoFork(b []byte) (InfoFork, error) {
	var i InfoFork
	if len(b) < 72 {
		return i, fmt.Errorf("info fork %d bytes < 72", len(b))
	}
	copy(i.Platform[:], b[0:4])
	copy(i.Type[:], b[4:8])
	copy(i.Creator[:], b[8:12])
	copy(i.Flags[:], b[12:16])
	copy(i.PlatFlags[:], b[16:20])
	copy(i.Create[:], b[52:60])
	copy(i.Modify[:], b[60:68])
	i.NameScript = be.Uint16(b[68:70])
	n := int(be.Uint16(b[70:72]))
	if 72+n > len(b) {
		return i, fmt.Errorf("info fork: name length %d overruns (%d bytes)", n, len(b))
	}
	i.Name = append([]byte{}, b[72:72+n]...)
	rest := b[72+n:]
	if len(rest) == 0 {
		i.NoComment = true
		return i, nil
	}
	if len(rest) < 2 {
		return i, fmt.Errorf("info fork: %d stray bytes after name", len(rest))
	}
	c := int(be.Uint16(rest[0:2]))
	if 2+c != len(rest) {
		return i, fmt.Errorf("info fork: comment length %d but %d bytes follow", c, len(rest)-2)
	}
	i.Comment = append([]byte{}, rest[2:]...)
	return i, nil
}

func ForkHeader(typ string, size int) []byte {
	return cat([]byte(typ), make([]byte, 8), U32(size))
}

// FlatHeader encodes FILP header + INFO fork header + info fork + DATA fork header.
func FlatHeader(info InfoFork, dataSize int, forkCount int) []byte {
	ib := info.Encode()
	return cat([]byte("FILP"), U16(1), make([]byte, 16), U16(forkCount),
		ForkHeader("INFO", len(ib)), ib, ForkHeader("DATA", dataSize))
}

type FlatParsed struct {
	ForkCount int
	Info      InfoFork
	InfoSize  int
	DataSize  int
	HeaderLen int // bytes consumed up to and including the DATA fork header
}

// ParseFlatHeader strictly parses a flattened file header from the front of b.
func ParseFlatHeader(b []byte) (FlatParsed, error) {
	var p FlatParsed
	if len(b) < 24+16 {
		return p, fmt.Errorf("flattened header: only %d bytes", len(b))
	}
	if string(b[0:4]) != "FILP" {
		return p, fmt.Errorf("flattened header magic %q", b[0:4])
	}
	if be.Uint16(b[4:6]) != 1 {
		return p, fmt.Errorf("flattened header version %d", be.Uint16(b[4:6]))
	}
	p.ForkCount = int(be.Uint16(b[22:24]))
	if string(b[24:28]) != "INFO" {
		return p, fmt.Errorf("first fork is %q, want INFO", b[24:28])
	}
	p.InfoSize = int(be.Uint32(b[36:40]))
	if 40+p.InfoSize+16 > len(b) {
		return p, fmt.Errorf("info fork size %d overruns stream (%d bytes)", p.InfoSize, len(b))
	}
	info, err := DecodeInfoFork(b[40 : 40+p.InfoSize])
	if err != nil {
		return p, err
	}
	p.Info = info
	o := 40 + p.InfoSize
	if string(b[o:o+4]) != "DATA" {
		return p, fmt.Errorf("fork after INFO (size %d) is %q, want DATA", p.InfoSize, b[o:o+4])
	}
	p.DataSize = int(be.Uint32(b[o+12 : o+16]))
	p.HeaderLen = o + 16
	return p, nil
}

// ---- date ----

func Date(year, millis, secs int) []byte { return cat(U16(year), U16(millis), U32(secs)) }

// ---- folder item header (folder download: server→client; folder upload: client→server) ----

// FolderItem encodes size(2) kind(2) pathCount(2) items…; size counts kind, count and items.
func FolderItem(isFolder bool, items ...[]byte) []byte {
	p := Path(items...)
	kind := 0
	if isFolder {
		kind = 1
	}
	return cat(U16(2+len(p)), U16(kind), p)
}

type FolderItemParsed struct {
	IsFolder bool
	Items    [][]byte
	Len      int
}

func ParseFolderItem(b []byte) (FolderItemParsed, error) {
	var r FolderItemParsed
	if len(b) < 4 {
		return r, ErrShort
	}
	sz := int(be.Uint16(b[0:2]))
	if len(b) < 2+sz {
		return r, ErrShort
	}
	if sz < 4 {
		return r, fmt.Errorf("folder item size %d < 4", sz)
	}
	kind := be.Uint16(b[2:4])
	if kind > 1 {
		return r, fmt.Errorf("folder item kind %d", kind)
	}
	r.IsFolder = kind == 1
	items, err := DecodePath(b[4 : 2+sz])
	if err != nil {
		return r, fmt.Errorf("folder item path: %w", err)
	}
	r.Items = items
	r.Len = 2 + sz
	return r, nil
}

// ---- news ----

type CatItem struct {
	Type  uint16 // 2 bundle, 3 category
	Count uint16
	Name  []byte
}

func (c CatItem) Encode() []byte {
	out := cat(U16(int(c.Type)), U16(int(c.Count)))
	if c.Type == 3 {
		out = append(out, make([]byte, 24)...)
	}
	out = append(out, byte(len(c.Name)))
	return append(out, c.Name...)
}

func DecodeCatItem(b []byte) (CatItem, error) {
	var c CatItem
	if len(b) < 5 {
		return c, fmt.Errorf("category item %d bytes", len(b))
	}
	c.Type = be.Uint16(b[0:2])
	c.Count = be.Uint16(b[2:4])
	o := 4
	switch c.Type {
	case 2:
	case 3:
		o += 24
	default:
		return c, fmt.Errorf("category item type %d", c.Type)
	}
	if o >= len(b) {
		return c, fmt.Errorf("category item truncated")
	}
	n := int(b[o])
	if o+1+n != len(b) {
		return c, fmt.Errorf("category item: name length %d but %d bytes follow", n, len(b)-o-1)
	}
	c.Name = append([]byte{}, b[o+1:]...)
	return c, nil
}

type ArtListEntry struct {
	ID     uint32
	Date   [8]byte
	Parent uint32
	Flags  uint32
	Title  []byte
	Poster []byte
	Flavor []byte
	Size   uint16
}

func (a ArtListEntry) Encode() []byte {
	return cat(U32(int(a.ID)), a.Date[:], U32(int(a.Parent)), U32(int(a.Flags)), U16(1),
		[]byte{byte(len(a.Title))}, a.Title, []byte{byte(len(a.Poster))}, a.Poster,
		[]byte{byte(len(a.Flavor))}, a.Flavor, U16(int(a.Size)))
}

type ArtList struct {
	ID      uint32
	Name    []byte
	Desc    []byte
	Entries []ArtListEntry
}

func (l ArtList) Encode() []byte {
	out := cat(U32(int(l.ID)), U32(len(l.Entries)), []byte{byte(len(l.Name))}, l.Name, []byte{byte(len(l.Desc))}, l.Desc)
	for _, e := range l.Entries {
		out = append(out, e.Encode()...)
	}
	return out
}

func DecodeArtList(b []byte) (ArtList, error) {
	var l ArtList
	if len(b) < 10 {
		return l, fmt.Errorf("article list %d bytes < 10", len(b))
	}
	l.ID = be.Uint32(b[0:4])
	n := int(be.Uint32(b[4:8]))
	o := 8
	rd := func(what string) ([]byte, error) {
		if o >= len(b) {
			return nil, fmt.Errorf("article list: %s length byte missing at %d", what, o)
		}
		k := int(b[o])
		if o+1+k > len(b) {
			return nil, fmt.Errorf("article list: %s length %d overruns at %d", what, k, o)
		}
		v := append([]byte{}, b[o+1:o+1+k]...)
		o += 1 + k
		return v, nil
	}
	var err error
	if l.Name, err = rd("name"); err != nil {
		return l, err
	}
	if l.Desc, err = rd("description"); err != nil {
		return l, err
	}
	for i := 0; i < n; i++ {
		var e ArtListEntry
		if o+22 > len(b) {
			return l, fmt.Errorf("article list: entry %d/%d header overruns at %d of %d", i, n, o, len(b))
		}
		e.ID = be.Uint32(b[o : o+4])
		copy(e.Date[:], b[o+4:o+12])
		e.Parent = be.Uint32(b[o+12 : o+16])
		e.Flags = be.Uint32(b[o+16 : o+20])
		fc := int(be.Uint16(b[o+20 : o+22]))
		o += 22
		if e.Title, err = rd("title"); err != nil {
			return l, err
		}
		if e.Poster, err = rd("poster"); err != nil {
			return l, err
		}
		for j := 0; j < fc; j++ {
			if e.Flavor, err = rd("flavor"); err != nil {
				return l, err
			}
			if o+2 > len(b) {
				return l, fmt.Errorf("article list: entry %d size overruns", i)
			}
			e.Size = be.Uint16(b[o : o+2])
			o += 2
		}
		l.Entries = append(l.Entries, e)
	}
	if o != len(b) {
		return l, fmt.Errorf("article list: %d trailing bytes after %d entries", len(b)-o, n)
	}
	return l, nil
}

// ---- account record (data field of list-users / update-user) ----

func SubFields(fs ...Field) []byte {
	out := U16(len(fs))
	for _, f := range fs {
		out = append(out, f.Encode()...)
	}
	return out
}

func DecodeSubFields(b []byte) ([]Field, error) {
	if len(b) < 2 {
		return nil, fmt.Errorf("record %d bytes < 2", len(b))
	}
	n := int(be.Uint16(b[0:2]))
	o := 2
	var fs []Field
	for i := 0; i < n; i++ {
		if o+4 > len(b) {
			return nil, fmt.Errorf("record: field %d header overruns", i)
		}
		id := be.Uint16(b[o : o+2])
		sz := int(be.Uint16(b[o+2 : o+4]))
		if o+4+sz > len(b) {
			return nil, fmt.Errorf("record: field %d size %d overruns", i, sz)
		}
		fs = append(fs, Field{ID: id, Data: append([]byte{}, b[o+4:o+4+sz]...)})
		o += 4 + sz
	}
	if o != len(b) {
		return nil, fmt.Errorf("record: %d trailing bytes", len(b)-o)
	}
	return fs, nil
}

// ---- tracker ----

func TrackerRegistration(port, users int, passID [4]byte, name, desc, pass []byte) []byte {
	return cat(U16(1), U16(port), U16(users), U16(0), passID[:],
		[]byte{byte(len(name))}, name, []byte{byte(len(desc))}, desc, []byte{byte(len(pass))}, pass)
}

func ServerRecord(ip [4]byte, port, users int, name, desc []byte) []byte {
	return cat(ip[:], U16(port), U16(users), U16(0), []byte{byte(len(name))}, name, []byte{byte(len(desc))}, desc)
}

// ---- access bitmap ----

// BitSet reports privilege i of an 8-byte access bitmap: bit (7 - i mod 8) of byte i/8.
func BitSet(b []byte, i int) bool {
	if i/8 >= len(b) {
		return false
	}
	return b[i/8]&(0x80>>uint(i%8)) != 0
}

func SetBit(b []byte, i int) { b[i/8] |= 0x80 >> uint(i%8) }

func Bitmap(bits ...int) []byte {
	b := make([]byte, 8)
	for _, i := range bits {
		SetBit(b, i)
	}
	return b
}

func AllBits() []byte { return []byte{255, 255, 255, 255, 255, 255, 255, 255} }
