// Package transport provides the in-memory connection used to drive the real server code:
// client→server bytes are delivered in scripted segments (never coalesced), server→client bytes
// are recorded per Write call (each call atomic, calls from different goroutines may interleave —
// exactly TCP's guarantee in Go). Buffers are unbounded so the harness can never wedge the server.
package transport

import (
	"errors"
	"io"
	"os"
	"runtime"
	"sync"
	"sync/atomic"
	"syscall"
	"time"
)

var ErrClosed = errors.New("use of closed connection")
var ErrInjected = errors.New("injected read error: connection reset by peer")

type Chunk struct {
	Seq  int64 // global logical sequence number across all conns sharing a Clock
	Data []byte
}

// Clock hands out logical time stamps shared by several connections.
type Clock struct{ n atomic.Int64 }

func (c *Clock) Tick() int64 { return c.n.Add(1) }

type Conn struct {
	mu   sync.Mutex
	cond *sync.Cond

	in       [][]byte // queued client→server segments
	inEOF    bool     // after the queue is drained Read returns io.EOF
	inErr    error    // after the queue is drained Read returns this error
	parked   bool     // server is blocked in Read with nothing pending
	Reads    int      // server Read calls that returned data
	ShortHdr int      // Read calls that returned fewer bytes than the buffer could take

	out      []Chunk // server→client, one entry per Write call
	outBytes int
	rdPos    int // client-side cursor (chunk index)
	rdOff    int // offset inside chunk rdPos

	srvClosed bool // server called Close
	Clock     *Clock

	// WriteHook, when set, is called before a server Write is recorded (may yield or sleep).
	WriteHook func(n int)
	// MaxRead, when > 0, caps what a single Read returns (besides segment boundaries).
	MaxRead int
	// Done, when non-nil, is closed by whoever runs the server-side handler once it has returned.
	Done chan struct{}
	// Backpressure, when > 0, makes a server Write block while that many bytes are waiting unread by the client
	// (a peer that reads slowly or not at all); the default is an unbounded buffer.
	Backpressure int
	consumed     int
	// DiscardOutput makes the connection accept and forget what the server writes (a client nobody looks at; keeps a
	// long run with hundreds of idle residents from storing every notification they are sent).
	DiscardOutput bool
	// WriteLimit, when > 0, makes the connection behave like a peer that vanished after that many bytes in total had
	// been written to it: the Write that crosses the limit is cut short (the bytes before the limit are recorded,
	// the short count and EPIPE are returned) and every later Write fails.
	WriteLimit int
	rdDeadline time.Time
	wrDeadline time.Time
}

// SetDeadline, SetReadDeadline and SetWriteDeadline give the connection net.Conn's deadline semantics, so that
// server code that sets timeouts behaves as it would on a socket.
func (c *Conn) SetDeadline(t time.Time) error {
	c.mu.Lock()
	c.rdDeadline, c.wrDeadline = t, t
	c.cond.Broadcast()
	c.mu.Unlock()
	return nil
}

func (c *Conn) SetReadDeadline(t time.Time) error {
	c.mu.Lock()
	c.rdDeadline = t
	c.cond.Broadcast()
	c.mu.Unlock()
	return nil
}

func (c *Conn) SetWriteDeadline(t time.Time) error {
	c.mu.Lock()
	c.wrDeadline = t
	c.cond.Broadcast()
	c.mu.Unlock()
	return nil
}

func expired(t time.Time) bool { return !t.IsZero() && time.Now().After(t) }

func NewConn() *Conn {
	c := &Conn{Clock: &Clock{}}
	c.cond = sync.NewCond(&c.mu)
	return c
}

// ---- server side (io.ReadWriteCloser) ----

func (c *Conn) Read(p []byte) (int, error) {
	c.mu.Lock()
	defer c.mu.Unlock()
	for {
		if c.srvClosed {
			return 0, ErrClosed
		}
		if len(c.in) > 0 {
			seg := c.in[0]
			n := len(seg)
			if n > len(p) {
				n = len(p)
			}
			if c.MaxRead > 0 && n > c.MaxRead {
				n = c.MaxRead
			}
			copy(p, seg[:n])
			if n == len(seg) {
				c.in = c.in[1:]
			} else {
				c.in[0] = seg[n:]
			}
			c.Reads++
			if n < len(p) {
				c.ShortHdr++
			}
			return n, nil
		}
		if c.inErr != nil {
			return 0, c.inErr
		}
		if c.inEOF {
			return 0, io.EOF
		}
		if expired(c.rdDeadline) {
			return 0, os.ErrDeadlineExceeded
		}
		c.parked = true
		c.cond.Broadcast()
		if c.rdDeadline.IsZero() {
			c.cond.Wait()
		} else {
			c.mu.Unlock()
			time.Sleep(500 * time.Microsecond)
			c.mu.Lock()
		}
		c.parked = false
	}
}

func (c *Conn) Write(p []byte) (int, error) {
	if h := c.WriteHook; h != nil {
		h(len(p))
	}
	c.mu.Lock()
	defer c.mu.Unlock()
	for {
		if c.srvClosed {
			return 0, ErrClosed
		}
		if expired(c.wrDeadline) {
			return 0, os.ErrDeadlineExceeded
		}
		if c.Backpressure <= 0 || c.outBytes-c.consumed < c.Backpressure {
			break
		}
		c.mu.Unlock()
		time.Sleep(200 * time.Microsecond)
		c.mu.Lock()
	}
	if c.DiscardOutput {
		c.outBytes += len(p)
		c.consumed = c.outBytes
		return len(p), nil
	}
	if c.WriteLimit > 0 && c.outBytes+len(p) > c.WriteLimit {
		n := c.WriteLimit - c.outBytes
		if n < 0 {
			n = 0
		}
		if n > 0 {
			d := make([]byte, n)
			copy(d, p[:n])
			c.out = append(c.out, Chunk{Seq: c.Clock.Tick(), Data: d})
			c.outBytes += n
			c.cond.Broadcast()
		}
		return n, syscall.EPIPE
	}
	d := make([]byte, len(p))
	copy(d, p)
	c.out = append(c.out, Chunk{Seq: c.Clock.Tick(), Data: d})
	c.outBytes += len(p)
	c.cond.Broadcast()
	return len(p), nil
}

// SetBackpressure changes Backpressure on a live connection (1 = the peer has stopped reading altogether, provided
// something has been written to it already).
func (c *Conn) SetBackpressure(n int) {
	c.mu.Lock()
	c.Backpressure = n
	c.mu.Unlock()
}

// SetDiscardOutput switches DiscardOutput on a live connection.
func (c *Conn) SetDiscardOutput(on bool) {
	c.mu.Lock()
	c.DiscardOutput = on
	c.mu.Unlock()
}

// SetWriteLimit arms WriteLimit relative to what has been written so far.
func (c *Conn) SetWriteLimit(more int) {
	c.mu.Lock()
	c.WriteLimit = c.outBytes + more
	c.mu.Unlock()
}

func (c *Conn) Close() error {
	c.mu.Lock()
	defer c.mu.Unlock()
	c.srvClosed = true
	c.cond.Broadcast()
	return nil
}

// ---- client / harness side ----

// Send queues segments for the server; each element is delivered by its own Read call(s).
func (c *Conn) Send(segs ...[]byte) {
	c.mu.Lock()
	defer c.mu.Unlock()
	for _, s := range segs {
		if len(s) == 0 {
			continue
		}
		d := make([]byte, len(s))
		copy(d, s)
		c.in = append(c.in, d)
	}
	c.cond.Broadcast()
}

// CloseWrite makes the server see EOF once the queued segments are consumed.
func (c *Conn) CloseWrite() {
	c.mu.Lock()
	c.inEOF = true
	c.cond.Broadcast()
	c.mu.Unlock()
}

// Fail makes the server see a read error once the queued segments are consumed.
func (c *Conn) Fail(err error) {
	c.mu.Lock()
	c.inErr = err
	c.cond.Broadcast()
	c.mu.Unlock()
}

// ServerClosed reports whether the server side called Close.
func (c *Conn) ServerClosed() bool {
	c.mu.Lock()
	defer c.mu.Unlock()
	return c.srvClosed
}

// Idle reports whether the server is parked in Read with nothing pending, or has closed.
func (c *Conn) Idle() bool {
	if c.Done != nil {
		select {
		case <-c.Done:
			return true
		default:
		}
		c.mu.Lock()
		defer c.mu.Unlock()
		return c.parked && len(c.in) == 0 && !c.srvClosed && !c.inEOF && c.inErr == nil
	}
	c.mu.Lock()
	defer c.mu.Unlock()
	return c.srvClosed || (c.parked && len(c.in) == 0) || ((c.inEOF || c.inErr != nil) && len(c.in) == 0)
}

// HandlerDone reports whether the server-side handler has returned (needs Done).
func (c *Conn) HandlerDone() bool {
	if c.Done == nil {
		return false
	}
	select {
	case <-c.Done:
		return true
	default:
		return false
	}
}

// Parked reports whether the server is blocked in Read with nothing pending.
func (c *Conn) Parked() bool {
	c.mu.Lock()
	defer c.mu.Unlock()
	return c.parked && len(c.in) == 0
}

// Pending returns the number of queued, not yet delivered client bytes.
func (c *Conn) Pending() int {
	c.mu.Lock()
	defer c.mu.Unlock()
	n := 0
	for _, s := range c.in {
		n += len(s)
	}
	return n
}

// WaitIdle waits until the server consumed all input and is parked in Read (or closed).
// The wall-clock limit is a watchdog only: false = inconclusive.
func (c *Conn) WaitIdle(d time.Duration) bool {
	deadline := time.Now().Add(d)
	for {
		if c.Idle() {
			return true
		}
		if time.Now().After(deadline) {
			return false
		}
		runtime.Gosched()
		time.Sleep(50 * time.Microsecond)
	}
}

// Out returns a copy of everything the server wrote so far.
func (c *Conn) Out() []byte {
	c.mu.Lock()
	defer c.mu.Unlock()
	b := make([]byte, 0, c.outBytes)
	for _, ch := range c.out {
		b = append(b, ch.Data...)
	}
	return b
}

// Chunks returns the recorded Write calls.
func (c *Conn) Chunks() []Chunk {
	c.mu.Lock()
	defer c.mu.Unlock()
	return append([]Chunk(nil), c.out...)
}

func (c *Conn) OutLen() int {
	c.mu.Lock()
	defer c.mu.Unlock()
	return c.outBytes
}

// ClientRead reads server output like a client socket: blocks until data is available, the
// server closed, done() is true, or the watchdog fires (err = ErrWatchdog).
var ErrWatchdog = errors.New("watchdog")

func (c *Conn) ClientRead(p []byte, d time.Duration, done func() bool) (int, error) {
	deadline := time.Now().Add(d)
	c.mu.Lock()
	defer c.mu.Unlock()
	for {
		for c.rdPos < len(c.out) && c.rdOff >= len(c.out[c.rdPos].Data) {
			c.rdPos++
			c.rdOff = 0
		}
		if c.rdPos < len(c.out) {
			n := copy(p, c.out[c.rdPos].Data[c.rdOff:])
			c.rdOff += n
			c.consumed += n
			return n, nil
		}
		if c.srvClosed || (done != nil && done()) {
			return 0, io.EOF
		}
		if time.Now().After(deadline) {
			return 0, ErrWatchdog
		}
		// timed wait: release the lock briefly
		c.mu.Unlock()
		time.Sleep(100 * time.Microsecond)
		c.mu.Lock()
	}
}

// ClientReadFull reads exactly len(p) bytes.
func (c *Conn) ClientReadFull(p []byte, d time.Duration, done func() bool) (int, error) {
	got := 0
	for got < len(p) {
		n, err := c.ClientRead(p[got:], d, done)
		got += n
		if err != nil {
			if err == io.EOF && got > 0 && got < len(p) {
				return got, io.ErrUnexpectedEOF
			}
			return got, err
		}
	}
	return got, nil
}

// Unread returns the bytes not yet consumed through ClientRead.
func (c *Conn) Unread() []byte {
	c.mu.Lock()
	defer c.mu.Unlock()
	var b []byte
	for i := c.rdPos; i < len(c.out); i++ {
		d := c.out[i].Data
		if i == c.rdPos {
			if c.rdOff < len(d) {
				b = append(b, d[c.rdOff:]...)
			}
			continue
		}
		b = append(b, d...)
	}
	return b
}

// Partition cuts b into segments according to sizes (cycled); sizes <= 0 are treated as 1.
func Partition(b []byte, sizes []int) [][]byte {
	if len(sizes) == 0 {
		return [][]byte{b}
	}
	var out [][]byte
	i := 0
	for len(b) > 0 {
		n := sizes[i%len(sizes)]
		i++
		if n <= 0 {
			n = 1
		}
		if n > len(b) {
			n = len(b)
		}
		out = append(out, b[:n])
		b = b[n:]
	}
	return out
}

// CutAt cuts b at the given ascending offsets.
func CutAt(b []byte, offs ...int) [][]byte {
	var out [][]byte
	prev := 0
	for _, o := range offs {
		if o <= prev || o >= len(b) {
			continue
		}
		out = append(out, b[prev:o])
		prev = o
	}
	out = append(out, b[prev:])
	return out
}
