// Package xfer holds the reference file-transfer clients (download, upload, folder download, folder
// upload) used on the transfer port, written from the protocol document.
package xfer

import (
	"fmt"
	"time"

	"golang.org/x/text/encoding/charmap"

	"verifharness/internal/fixture"
	"verifharness/internal/refclient"
	rc "verifharness/internal/refcodec"
)

// TransferWatchdog: transfer handlers sleep 3 s before returning; this is only a watchdog.
const TransferWatchdog = 60 * time.Second

// MacToUTF8 converts Mac-Roman bytes (as sent by clients) to the UTF-8 name used on disk.
func MacToUTF8(b []byte) string {
	s, _ := charmap.Macintosh.NewDecoder().Bytes(b)
	return string(s)
}

// UTF8ToMac converts a disk name to the Mac-Roman bytes a client sees; ok=false if not representable.
func UTF8ToMac(s string) ([]byte, bool) {
	b, err := charmap.Macintosh.NewEncoder().Bytes([]byte(s))
	return b, err == nil
}

func pathField(id int, p [][]byte) []rc.Field {
	if len(p) == 0 {
		return nil
	}
	return []rc.Field{rc.F(id, rc.Path(p...))}
}

type DownloadReply struct {
	Reply    rc.Tran
	OK       bool
	Ref      []byte
	Transfer int
	FileSize int
	HasXfer  bool
	HasSize  bool
}

// RequestDownload sends a download request; offset < 0 means no resume data.
func RequestDownload(cl *refclient.Client, name []byte, path [][]byte, offset int, preview bool) DownloadReply {
	return RequestDownloadEnc(cl, name, path, offset, preview, false)
}

// RequestDownloadEnc: wide sends the preview option as a 4-byte integer (00 00 00 02), which the protocol allows.
func RequestDownloadEnc(cl *refclient.Client, name []byte, path [][]byte, offset int, preview, wide bool) DownloadReply {
	fs := []rc.Field{rc.F(201, name)}
	fs = append(fs, pathField(202, path)...)
	if offset >= 0 {
		if offset%2 == 1 {
			fs = append(fs, rc.F(203, rc.ResumeData(rc.DataFork(offset)))) // a client that lists the data fork only
		} else {
			fs = append(fs, rc.F(203, rc.ResumeData(rc.DataFork(offset), rc.RsrcFork(0))))
		}
	}
	if preview {
		if wide {
			fs = append(fs, rc.F(204, rc.U32(2)))
		} else {
			fs = append(fs, rc.F(204, rc.U16(2)))
		}
	}
	rep, ok := cl.Call(202, fs...)
	d := DownloadReply{Reply: rep, OK: ok && rep.Err == 0}
	if !d.OK {
		return d
	}
	d.Ref, _ = rep.Get(107)
	if v, ok := rep.Get(108); ok {
		d.Transfer, d.HasXfer = rc.DecodeIntField(v)
	}
	if v, ok := rep.Get(207); ok {
		d.FileSize, d.HasSize = rc.DecodeIntField(v)
	}
	return d
}

// RunTransfer opens a transfer connection, sends the preamble and the given payload (cut into
// segments), optionally ends the stream (EOF or error), waits for the handler to return and gives back
// everything the server wrote.
type Run struct {
	T    *refclient.Transfer
	Out  []byte
	Err  error
	Done bool
}

func Start(srv *fixture.Server, addr string, ref []byte, size int, payload [][]byte) *refclient.Transfer {
	t := refclient.OpenTransfer(srv, addr)
	t.Conn.Send(rc.Preamble(ref, size))
	t.Conn.Send(payload...)
	return t
}

func Finish(t *refclient.Transfer) Run {
	ok := t.WaitDone(TransferWatchdog)
	return Run{T: t, Out: t.Conn.Out(), Err: t.Err, Done: ok}
}

// Download performs the transfer part of a download and returns the stream.
func Download(srv *fixture.Server, addr string, ref []byte) Run {
	t := Start(srv, addr, ref, 0, nil)
	return Finish(t)
}

// UploadStream builds the flattened upload payload for (name, data[, rsrc]).
func UploadStream(name []byte, comment []byte, data, rsrc []byte) []byte {
	info := rc.InfoFork{Name: name, Comment: comment}
	copy(info.Platform[:], "AMAC")
	copy(info.Type[:], "TEXT")
	copy(info.Creator[:], "ttxt")
	forks := 2
	if rsrc != nil {
		forks = 3
	}
	out := rc.FlatHeader(info, len(data), forks)
	out = append(out, data...)
	if rsrc != nil {
		out = append(out, rc.ForkHeader("MACR", len(rsrc))...)
		out = append(out, rsrc...)
	}
	return out
}

// HeaderLen returns the length of the flattened header for (name, comment).
func HeaderLen(name, comment []byte) int { return 24 + 16 + 72 + len(name) + 2 + len(comment) + 16 }

type UploadReply struct {
	Reply     rc.Tran
	Answered  bool
	OK        bool
	Ref       []byte
	HasResume bool
	Offset    int
}

func RequestUpload(cl *refclient.Client, name []byte, path [][]byte, size int, resume bool) UploadReply {
	fs := []rc.Field{rc.F(201, name)}
	fs = append(fs, pathField(202, path)...)
	if resume {
		fs = append(fs, rc.F(204, rc.U16(1)))
	} else {
		fs = append(fs, rc.F(108, rc.U32(size)))
	}
	rep, ok := cl.Call(203, fs...)
	u := UploadReply{Reply: rep, Answered: ok, OK: ok && rep.Err == 0}
	if !u.OK {
		return u
	}
	u.Ref, _ = rep.Get(107)
	if rd, ok := rep.Get(203); ok {
		forks, err := rc.DecodeResumeData(rd)
		if err == nil && len(forks) > 0 {
			u.HasResume, u.Offset = true, int(forks[0].Size)
		} else {
			u.HasResume, u.Offset = true, -1
		}
	}
	return u
}

func Describe(b []byte) string {
	if len(b) > 32 {
		return fmt.Sprintf("%x…(%d bytes)", b[:32], len(b))
	}
	return fmt.Sprintf("%x", b)
}

// ---------------------------------------------------------------------------------------------
// folder transfers

type DlItem struct {
	IsFolder  bool
	Path      [][]byte
	Action    int    // what the client answered
	Announced int    // size prefix announced by the server (files that were sent)
	Payload   []byte // flattened file + data as sent by the server
}

// FolderDownload runs the client side of a folder download. choose decides the action per item:
// 1 send, 2 resume (offset returned), 3 skip. It returns the items seen and a protocol error, if any.
func FolderDownload(srv *fixture.Server, addr string, ref []byte, maxItems int, choose func(i int, it *DlItem) (action, offset int)) ([]DlItem, *refclient.Transfer, error) {
	t := refclient.OpenTransfer(srv, addr)
	t.Conn.Send(rc.Preamble(ref, 0), []byte{0, 1})
	var items []DlItem
	rd := func(n int) ([]byte, error) {
		b := make([]byte, n)
		_, err := t.Conn.ClientReadFull(b, TransferWatchdog, t.Conn.HandlerDone)
		return b, err
	}
	for i := 0; i < maxItems; i++ {
		szb, err := rd(2)
		if err != nil {
			// no more item headers: the server is done (it sleeps before returning)
			return items, t, nil
		}
		sz := int(szb[0])<<8 | int(szb[1])
		rest, err := rd(sz)
		if err != nil {
			return items, t, fmt.Errorf("item %d: header announces %d bytes, stream ended: %v", i, sz, err)
		}
		p, err := rc.ParseFolderItem(append(szb, rest...))
		if err != nil {
			return items, t, fmt.Errorf("item %d: %v", i, err)
		}
		it := DlItem{IsFolder: p.IsFolder, Path: p.Items}
		action, offset := choose(i, &it)
		it.Action = action
		switch action {
		case 3:
			t.Conn.Send([]byte{0, 3})
			items = append(items, it)
			continue
		case 2:
			rdata := rc.ResumeData(rc.DataFork(offset), rc.RsrcFork(0))
			if offset%2 == 1 {
				rdata = rc.ResumeData(rc.DataFork(offset)) // a client that lists the data fork only
			}
			t.Conn.Send(append(append([]byte{0, 2}, rc.U16(len(rdata))...), rdata...))
		default:
			t.Conn.Send([]byte{0, 1})
		}
		if it.IsFolder {
			items = append(items, it)
			continue
		}
		pre, err := rd(4)
		if err != nil {
			return append(items, it), t, fmt.Errorf("item %d (%q): no size prefix: %v", i, it.Path, err)
		}
		it.Announced = int(pre[0])<<24 | int(pre[1])<<16 | int(pre[2])<<8 | int(pre[3])
		if it.Announced > 64<<20 {
			return append(items, it), t, fmt.Errorf("item %d: absurd size prefix %d", i, it.Announced)
		}
		it.Payload, err = rd(it.Announced)
		if err != nil {
			return append(items, it), t, fmt.Errorf("item %d (%q): size prefix announces %d bytes but the stream ended after %d: %v", i, it.Path, it.Announced, len(it.Payload), err)
		}
		t.Conn.Send([]byte{0, 3})
		items = append(items, it)
	}
	return items, t, nil
}

type UpItem struct {
	IsFolder  bool
	Path      [][]byte
	RawHeader []byte // when set, sent instead of the encoded header
	Data      []byte
	CutAfter  int // when > 0: deliver only this many bytes of the (remaining) data, then end the connection
	Before    func() // when set: called right before this item's header is sent (the transfer is waiting for it)
	// filled in by the client
	Action int
	Offset int
}

// ErrCut is returned by FolderUpload when it ended the connection on purpose.
var ErrCut = fmt.Errorf("connection cut by the client")

// FolderUpload runs the client side of a folder upload and returns the actions the server chose.
func FolderUpload(srv *fixture.Server, addr string, ref []byte, items []UpItem) ([]UpItem, *refclient.Transfer, error) {
	t := refclient.OpenTransfer(srv, addr)
	t.Conn.Send(rc.Preamble(ref, 0))
	rd := func(n int) ([]byte, error) {
		b := make([]byte, n)
		_, err := t.Conn.ClientReadFull(b, TransferWatchdog, t.Conn.HandlerDone)
		return b, err
	}
	if _, err := rd(2); err != nil {
		return items, t, fmt.Errorf("no initial action: %v", err)
	}
	for i := range items {
		it := &items[i]
		if it.Before != nil {
			it.Before()
		}
		hdr := it.RawHeader
		if hdr == nil {
			hdr = rc.FolderItem(it.IsFolder, it.Path...)
		}
		t.Conn.Send(hdr)
		a, err := rd(2)
		if err != nil {
			return items, t, fmt.Errorf("item %d: no action from the server: %v", i, err)
		}
		it.Action = int(a[1])
		if it.IsFolder {
			continue
		}
		name := []byte("unnamed")
		if len(it.Path) > 0 {
			name = it.Path[len(it.Path)-1]
		}
		switch it.Action {
		case 3:
			continue
		case 2:
			lb, err := rd(2)
			if err != nil {
				return items, t, err
			}
			rdata, err := rd(int(lb[0])<<8 | int(lb[1]))
			if err != nil {
				return items, t, err
			}
			forks, err := rc.DecodeResumeData(rdata)
			if err != nil || len(forks) == 0 {
				return items, t, fmt.Errorf("item %d: resume data: %v", i, err)
			}
			it.Offset = int(forks[0].Size)
			if it.Offset > len(it.Data) {
				return items, t, fmt.Errorf("item %d: resume offset %d beyond %d", i, it.Offset, len(it.Data))
			}
			fl := UploadStream(name, nil, it.Data[it.Offset:], nil)
			if it.CutAfter > 0 && it.CutAfter < len(it.Data)-it.Offset {
				t.Conn.Send(append(rc.U32(len(fl)), fl[:HeaderLen(name, nil)+it.CutAfter]...))
				t.Conn.CloseWrite()
				return items, t, ErrCut
			}
			t.Conn.Send(append(rc.U32(len(fl)), fl...))
		case 1:
			fl := UploadStream(name, nil, it.Data, nil)
			if it.CutAfter > 0 && it.CutAfter < len(it.Data) {
				t.Conn.Send(append(rc.U32(len(fl)), fl[:HeaderLen(name, nil)+it.CutAfter]...))
				t.Conn.CloseWrite()
				return items, t, ErrCut
			}
			t.Conn.Send(append(rc.U32(len(fl)), fl...))
		default:
			return items, t, fmt.Errorf("item %d: unknown action %x", i, a)
		}
		if _, err := rd(2); err != nil {
			return items, t, fmt.Errorf("item %d: no next-item action after the file: %v", i, err)
		}
	}
	return items, t, nil
}
