#!/usr/bin/env python3
# Regenerates MANIFEST.json from the table below (run after adding a property check).
import json, subprocess
props = {p['id']: p for p in map(json.loads, open('/verif/properties.jsonl'))}
hooks_commits = subprocess.run(['git','-C','/repo','log','--format=%h %s','--grep=^verif hooks'],capture_output=True,text=True).stdout.strip().splitlines()

# id -> (category, technique, level text, level note, design ref)
checks = {}
def add(id, cat, technique, text, note):
    checks[id] = dict(cat=cat, technique=technique, text=text, note=note)

exec(open('/verif/manifest_table.py').read())

m = {
 "version": 1,
 "setup_cmd": "/verif/setup.sh",
 "hooks": {
  "guard": "verif",
  "enable": "go build -tags verif (harness module /verif/harness, replace github.com/jhalter/mobius => /repo); /verif/build.sh rebuilds bin/vcheck and bin/vcheck-race from /repo's working tree on every check",
  "baseline_off_cmd": "cd /repo && GOFLAGS=-mod=mod GOPROXY=off GOSUMDB=off GOTOOLCHAIN=local go test -json -vet=off -count=1 -timeout 25m ./...",
  "source_commits": [c.split()[0] for c in hooks_commits],
  "add_only": True
 },
 "engines": [
  {"name": "vcheck", "path": "/verif/harness", "serves_properties": sorted(checks), "kind_free_text": "Go harness: parent/worker runtime monitors (reference codec/client/models, in-memory transport with scripted segmentation, hook-based quiescence), Go race detector builds, strace SIGKILL injection, porcupine"}
 ],
 "checks": [],
 "notes": "Technique family: runtime monitoring and sanitizers. Every verdict is 'held on the executions described in evidence/<id>.json'. Known findings and repaired defects: /verif/known_findings.txt.",
 "not_applicable": []
}
for id in sorted(props):
    if id in checks:
        c = checks[id]
        m["checks"].append({
          "property_id": id,
          "quick_cmd": f"/verif/check.sh {id} quick",
          "thorough_cmd": f"/verif/check.sh {id} thorough",
          "evidence_file": f"/verif/evidence/{id}.json",
          "replay_cmd_template": "/verif/bin/vcheck replay {path}",
          "engine": "vcheck",
          "level_claimed": {"category": c['cat'], "text": c['text'], "design_ref": f"DESIGN.md §5 {id}"},
          "level_note": c['note'],
          "technique": c['technique'],
        })
    else:
        m["not_applicable"].append({"property_id": id, "reason": "check not built yet in this session (runtime monitoring applies; see DESIGN.md §5) — not claimed until its monitor runs clean"})
json.dump(m, open('/verif/MANIFEST.json','w'), indent=1)
print("claimed:", sorted(checks))
