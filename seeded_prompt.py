#!/usr/bin/env python3
# prints the sub-agent prompt for one property (only the property text + worktree path; nothing from /verif)
import json, sys
pid = sys.argv[1]
wt = sys.argv[2] if len(sys.argv) > 2 else pid
wave2 = len(sys.argv) > 3
wave3 = len(sys.argv) > 3 and sys.argv[3] == 'w3'
wave4 = len(sys.argv) > 3 and sys.argv[3] in ('w4', 'w5', 'w6', 'w7', 'w8', 'w9', 'w10', 'w11')
wave11 = len(sys.argv) > 3 and sys.argv[3] == 'w11'
wave10 = len(sys.argv) > 3 and sys.argv[3] == 'w10'
wave9 = len(sys.argv) > 3 and sys.argv[3] == 'w9'
wave8 = len(sys.argv) > 3 and sys.argv[3] == 'w8'
wave7 = len(sys.argv) > 3 and sys.argv[3] == 'w7'
wave6 = len(sys.argv) > 3 and sys.argv[3] == 'w6'
wave5 = len(sys.argv) > 3 and sys.argv[3] == 'w5'
extra = ""
if wave2:
    extra += " Neither change may be a simply dropped or inverted check at the obvious entry point: at least one must rely on state carried across a multi-step sequence or on two cooperating sites that each look fine alone, and (where the property involves several connections, goroutines, crashes or faults) at least one must need a particular interleaving, crash point or fault to manifest."
if wave3 or wave4:
    extra += " Additionally, neither change may sit in the request's entry handler itself: put it in code at least one call away (shared helpers, encoders/decoders, stores, path or name handling, the connection/transfer loops, start-up/loading code), or in how two requests or two connections interact; pick sites and failure modes that a reviewer focused on the handler would not look at, and make the two changes as different from each other as you can (different files, different mechanisms)."
if wave4:
    extra += " Prefer changes whose effect depends on state left behind by a DIFFERENT session or an earlier request (pending transfers, stale table entries, leftover files, cached values), on integer fields sent in their shorter or longer legal encodings (Hotline integers may be 2 or 4 bytes), on values at the limits of their range (0, 1, 255/256, 65535/65536, 2^31, 2^32-1), on names at the limits of their length or containing non-ASCII bytes, or on the relative order of two operations by different users."
if wave6:
    extra += " For this round, look for what an automated checker that already exercises the common paths, concurrency, restarts and boundary sizes would STILL most likely overlook: rarely used request variants (old-client login flow, optional fields absent or present, requests addressed to things that do not exist, requests on aliases, drop boxes, per-account file roots, fork-preserving mode, nested news bundles), interactions between two features, behaviour under non-default configuration values (ignore patterns, news delimiter and date format, banner, download limits, line endings), and the lifecycle of table entries (pending transfers, chats, registry entries) after errors or refusals."
if wave7:
    extra += " For this round, aim at SECONDARY observables that a checker focused on the main effect of each request would not compare: what OTHER connected users receive or see as a consequence (notification contents such as ids, names, icons, flags; who is and is not notified; the order of two notifications), the less prominent fields of a reply (sizes, counts, dates, type and creator codes, flags, reference numbers, quoted text), and what is left behind after the operation completes or fails (table entries, counters, temporary and side files, the state seen by the NEXT request of the same or another user). The property must still be genuinely broken by the change."
if wave8:
    extra += " For this round: m1 must be a subtle PARTIAL REGRESSION of, or a new slip inside, code that recent commits added or rewrote (see `git log --oneline -60`, in particular commits whose message starts with 'fix:'): keep the repair working for the case its commit message describes, but break a sibling case, a second call site, an error/cleanup path of the new code, or its interplay with another repair. m2 must live in code that runs rarely or late: error and cleanup paths (defers, failed or cut transfers, refused requests, failed writes of one of two files), connection teardown, timers and background goroutines, start-up/reload of files written by an earlier run, or the second and later uses of a long-lived object (second transfer on a connection table, second chat, second restart, id or counter reuse). Both must still genuinely break the property as stated, through inputs the property quantifies over."
if wave9:
    extra += " For this round: m1 must break one side of a MIRRORED PAIR that has to stay symmetric - encode vs decode, save vs load, add vs remove, join vs leave, create vs delete, open vs close, reserve vs release, the 2-byte vs the 4-byte form of an integer, the request path vs the transfer-connection path of the same operation - so that each side still looks right on its own and only a round trip, or the second half of the pair arriving later or from another user, shows the damage. m2 must depend on the protocol STATE in which a request arrives or on REPETITION: the same request sent twice, a request sent before the session finished logging in / agreed or after its teardown began, a transfer connection presenting a reference number of a different kind of transfer or one already used, an id or name being reused right after it was freed, counters or sizes that wrap, truncate or go negative in integer arithmetic. Both must still genuinely break the property as stated, through inputs the property quantifies over."
if wave10:
    extra += " For this round: m1 must only show at SCALE or after ACCUMULATION - collections with many elements (255/256/257 or 65535/65536 entries, users, files in one folder, articles in one category, members of a chat, path depth, pending transfers), totals summed over many items, or state that builds up over many operations of a long-lived server (tables that are never pruned, counters, ids, file sizes growing past a limit) - while small, fresh instances behave perfectly. m2 must concern a MULTI-ELEMENT operation (a batched request with several sub-entries, a folder transfer with several items, a request with several fields of the same kind, a notification fanned out to several recipients, a start-up load of several files) in which one element is unusual, fails or is refused: what then happens to the elements before and after it - skipped, applied twice, applied to the wrong target, left half-done - must break the property, while the all-good and the single-element cases still work. Both must still genuinely break the property as stated, through inputs the property quantifies over."
if wave11:
    extra += " For this round: m1 must depend on the SHAPE of a request as different client programs send it - optional fields absent, present but empty, or present twice; fields in an unusual order; unknown extra fields; zero-length or one-byte values where two or four bytes are usual; an old-style client (version below 151, no agreement step) versus a new one - so that the requests of the most common client still work and only another legal shape breaks the property. m2 must need TWO DIFFERENT KINDS of operation on the same object to overlap or to follow each other closely, from different users or connections: rename or move or delete while a download or upload of that file is in progress or pending; edit or delete of an account while it is logging in or transferring; post or delete while a reload or a listing runs; a chat invite or leave racing a disconnect; a ban racing a login. Each operation alone, and two operations of the same kind, must still behave. Both must still genuinely break the property as stated, through inputs the property quantifies over."
if wave5:
    extra += " The THREE changes must be of three different kinds: m1 must need two sessions (or a session and a transfer connection) whose operations interleave or follow each other in a particular order; m2 must only show after a restart, reload or crash, or through files left behind on disk; m3 must only show for particular input encodings, lengths or boundary values. At least one of the three must be in a file that is NOT among the code anchors listed above."
p = next(json.loads(l) for l in open('/verif/properties.jsonl') if json.loads(l)['id'] == pid)
out = (f"""You are working in a scratch git worktree of the Go project jhalter/mobius (a Hotline protocol server) at /tmp/mut/{wt}. Work ONLY inside /tmp/mut/{wt}. Never touch or read /repo or /verif.

Every shell call needs: export GOFLAGS=-mod=mod GOPROXY=off GOSUMDB=off GOTOOLCHAIN=local   (the sandbox has no network; all modules are cached).

PROPERTY {pid}: {p['title']}
Statement: {p['statement']}
Quantified over: {p['quantifier']['text']}
Code anchors (starting points, read whatever you need): {', '.join(p['anchors']['files'])}

TASK: produce TWO independent, realistic source changes (two separate patches, m1 and m2, each applying to a clean HEAD on its own) to the NON-test Go code that each BREAK this property, while
 (a) `go build ./...` and `go build -tags verif ./...` still succeed, and
 (b) the existing test suite still passes unedited: `go test -vet=off -count=1 ./...`.
Each change must look like a plausible bug a developer could introduce (refactoring slip, off-by-one, a check dropped on one branch, wrong constant or wrong variable, lock released too early, reordered steps, stale cache, missing error propagation) - NOT sabotage such as emptying a function. Prefer changes that need something specific to manifest - a particular interleaving, a crash or fault at a particular point, a multi-step sequence of operations, an unusual input or boundary value, or two cooperating sites that each look fine alone - rather than ones that ordinary use would expose at once. The two changes should break different aspects/code paths of the property.{extra} Do not modify files under internal/verifhook/, verifshim/ or hotline/verif_export.go, and keep the verifhook.Event(...) lines in hotline/server.go.

For each change also write a DEMONSTRATION: a Go test file (or small program) that FAILS with the change applied and PASSES on the unchanged code. Verify this yourself: apply the change, run the demo (must fail), run the whole existing suite (must pass), revert the change, run the demo again (must pass).
Note: running the test suite rewrites internal/mobius/test/config/Users/guest.yaml and creates test-user.yaml; restore with `git checkout -- . && git clean -fdq internal hotline` (do not delete out/).

DELIVERABLES in /tmp/mut/{wt}/out/ :
  m1.diff  m2.diff          - `git diff` of the source change only (no demo files), relative to HEAD
  m1_demo_test.go  m2_demo_test.go  - the demonstration; first line a comment `// place in: <package dir relative to repo root>` and how to run it (go test -run <Name> ./<pkg>)
  m1.json  m2.json           - {{"property": "{pid}", "summary": "...what was changed...", "needs": "...what is needed for the violation to manifest...", "files": [...], "demo_run": "go test ..."}}
IMPORTANT: put a file out/go.mod containing "module mutout" in out/ so that ./... ignores the demo files there.
At the end leave the worktree clean (`git status` shows only out/ as untracked). Report briefly what the two changes are.""")
if wave5:
    out = out.replace("produce TWO independent, realistic source changes (two separate patches, m1 and m2, each applying", "produce THREE independent, realistic source changes (three separate patches, m1, m2 and m3, each applying")
    out = out.replace("The two changes should break different aspects/code paths of the property.", "The three changes should break different aspects/code paths of the property.")
    out = out.replace("m1.diff  m2.diff   ", "m1.diff  m2.diff  m3.diff   ")
    out = out.replace("m1_demo_test.go  m2_demo_test.go ", "m1_demo_test.go  m2_demo_test.go  m3_demo_test.go ")
    out = out.replace("m1.json  m2.json   ", "m1.json  m2.json  m3.json   ")
    out = out.replace("what the two changes are", "what the three changes are")
print(out)
