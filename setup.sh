#!/bin/bash
# setup_cmd: build everything once, offline.
set -e
cd /verif
. /verif/env.sh
/verif/build.sh all
echo setup ok
