#!/bin/bash
# exploratory sweep: sweep.sh <tier> <seed> [ids...] — runs checks without touching the registered evidence
tier=${1:-thorough}; seed=${2:-1}; shift 2
ids=${@:-C01 C02 C03 C04 C05 C06 C07 C08 C09 C10 C11 C12 C13 C14 C15 C16 C17 C18 C19 C20}
out=/tmp/sweep-$tier-$seed${SWEEP_TAG:-}; mkdir -p $out
mkdir -p $out/bin; cp /verif/bin/vcheck /verif/bin/vcheck-race $out/bin/
export VERIF_EVIDENCE_DIR=$out/evidence VERIF_SEED=$seed VERIF_BIN_DIR=$out/bin
for id in $ids; do
  $out/bin/vcheck run $id $tier > $out/$id.log 2>&1
  echo "$id exit=$? $(grep -E 'seed=' $out/$id.log | tail -1)" >> $out/summary.txt
done
echo DONE >> $out/summary.txt
